---------------------------- MODULE MC_ESP ----------------------------
(***************************************************************************)
(* C17 on the design: the incrementally maintained psi / psiBar equal the  *)
(* elementary symmetric polynomials of the CURRENT memberships in every    *)
(* reachable state: all u in (0..V)^N, every visiting order, every new     *)
(* value.  The run starts like the code does: all entries equal to a       *)
(* constant c and psi from the closed form c^d C(N, d).                    *)
(***************************************************************************)
EXTENDS ESP, TLC
CONSTANTS N, V, D, Mut
VARIABLES u, psi, bar, last       \* last: the node visited by the latest step (0: none)
Nodes == 1..N

Init == \E c \in 0..V : /\ u = [i \in Nodes |-> c]
                        /\ psi = ConstantInit(c, N, D)
                        /\ bar = [d \in 0..D |-> 0]
                        /\ last = 0
Visit(i, v) == LET b == BarOf(psi, u[i], D, Mut) IN
               /\ bar' = b
               /\ psi' = PsiOf(psi, b, u[i], v, D, Mut)
               /\ u' = [u EXCEPT ![i] = v]
               /\ last' = i
Next == \E i \in Nodes, v \in 0..V : Visit(i, v)

PsiIsESP    == \A d \in 0..D : psi[d] = Elem(u, Nodes, d)
BarIsESPWithoutLast == last # 0 => \A d \in 0..D : bar[d] = Elem(u, Nodes \ {last}, d)
NonNegative == \A d \in 0..D : psi[d] >= 0 /\ bar[d] >= 0
=============================================================================
