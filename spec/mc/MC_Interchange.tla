---------------------------- MODULE MC_Interchange ----------------------------
(* X02 on the design: the HIF format carries Carried(S), the closure operator is a   *)
(* closure operator, the encoder is the order-preserving bijection - in every        *)
(* reachable state of the bounded container (Node = 1..N ordered by <).              *)
(* The Hif* and Closure* invariants are for Kind = "hg"; the Enc* ones for any kind. *)
EXTENDS MC_HGX, Interchange

(* --- (a) ---------------------------------------------------------------- *)
\* the format, with a node record per node and an edge record per hyperedge, loses nothing of Carried;
\* the clauses the validator applies to a written file accept the canonical document; reading back what
\* was written is matched by exactly one map of the node names (the identity)
HifRoundTrip ==
  LET D == HifDoc(st)
      R == ReadHif(D)
      built == [nodes |-> SetToSeq(st.nodes),
                edges |-> SetToSeq({[nodes |-> SetToSeq(s), tok |-> CHOOSE t \in R.erec[s] : TRUE] : s \in R.edges}),
                nrec  |-> SetToSeq({[id |-> n, orig |-> n, tok |-> CHOOSE t \in R.nrec[n] : TRUE] : n \in DOMAIN R.nrec}),
                irec  |-> <<>>, hmd |-> st.hmd]
  IN /\ R = Carried(st)
     /\ HifCovered(D)
     /\ DocHyperedgesOK(D, st) /\ DocNodesOK(D, st)
     /\ ReadWeightsOK(R, st) /\ ReadEdgeMdOK(R, st) /\ ReadNodeMdOK(R, st)
     /\ Cardinality(BackMaps(st, built)) = 1
     /\ \A f \in BackMaps(st, built) : BackStructure(st, built, f) /\ BackAttrs(st, built, f, {})
\* ... and the clauses are not vacuous: without node records exactly the isolated nodes are lost, without
\* edge records exactly the weights other than 1 and the non-empty hyperedge metadata
HifBareLosesIsolated ==
  LET R == ReadHif(HifDocBare(st)) IN
  /\ R.nodes = st.nodes \ Isolated(st)
  /\ R.edges = {KN(k) : k \in Keys(st)}
  /\ (R.nodes = st.nodes) <=> (Isolated(st) = {})
  /\ ReadWeightsOK(R, st) <=> \A k \in Keys(st) : st.E[k].w = 1
  /\ ReadEdgeMdOK(R, st) <=> \A k \in Keys(st) : st.E[k].md = NoMeta
\* a document of another state with the same nodes is refused by the structure clause
HifDocDiscriminates ==
  \A k \in Keys(st) : ~DocHyperedgesOK(HifDoc([st EXCEPT !.E = Without(@, {k})]), st)

(* --- (b) ---------------------------------------------------------------- *)
NLt(m, n) == m < n
Enc == Encoder(st.nodes, NLt)
EncBijective == IsEncoding(Enc, st.nodes) /\ \A m, n \in st.nodes : m # n => Enc[m] # Enc[n]
EncMonotone  == \A m, n \in st.nodes : m < n => Enc[m] < Enc[n]
\* it is the only order-preserving bijection onto 0..N-1
EncUnique ==
  \A f \in Bijections(st.nodes, 0..(Cardinality(st.nodes) - 1)) :
     (\A m, n \in st.nodes : m < n => f[m] < f[n]) => f = Enc
EncInverse == /\ DOMAIN InverseOf(Enc) = 0..(Cardinality(st.nodes) - 1)
              /\ \A n \in st.nodes : InverseOf(Enc)[Enc[n]] = n
              /\ \A c \in DOMAIN InverseOf(Enc) : Enc[InverseOf(Enc)[c]] = c
\* relabelling a hyperedge: same size per role, undone by the inverse, distinct hyperedges stay distinct
RelKey(k) == Key(Image(Enc, k.s), Image(Enc, k.t), k.x)
RelabelRoundTrip == \A k \in Keys(st) :
   /\ Image(InverseOf(Enc), Image(Enc, k.s)) = k.s /\ Image(InverseOf(Enc), Image(Enc, k.t)) = k.t
   /\ Cardinality(Image(Enc, k.s)) = Cardinality(k.s) /\ Cardinality(Image(Enc, k.t)) = Cardinality(k.t)
   /\ KSize(RelKey(k)) = KSize(k)
RelabelInjective == Cardinality({RelKey(k) : k \in Keys(st)}) = Cardinality(Keys(st))
\* the sorted listing of a node set is sorted again after relabelling (canonical form is kept)
RECURSIVE AscSeq(_)
AscSeq(A) == IF A = {} THEN <<>>
              ELSE LET x == CHOOSE y \in A : \A z \in A : y <= z IN <<x>> \o AscSeq(A \ {x})
RelabelKeepsCanonicalForm == \A k \in Keys(st) :
   /\ Increasing(Relabel(Enc, AscSeq(k.s))) /\ Increasing(Relabel(Enc, AscSeq(k.t)))
   /\ Relabel(InverseOf(Enc), Relabel(Enc, AscSeq(k.s))) = AscSeq(k.s)

(* --- (c) ---------------------------------------------------------------- *)
CF == ClosureFaces(st)
ClosureExtensive  == \A k \in Keys(st) : KN(k) \in CF
ClosureDownward   == DownwardClosed(CF)
ClosureOnlySubsets == \A f \in CF : \E k \in Keys(st) : f \subseteq KN(k)
ClosureIdempotent == Closure(Closure(st)) = Closure(st)
\* monotone: fewer hyperedges, smaller closure
ClosureMonotone   == \A K \in SUBSET Keys(st) : ClosureFaces([st EXCEPT !.E = Restrict(@, K)]) \subseteq CF
\* least: every downward closed family that contains the hyperedges contains the closure
ClosureLeast ==
  \A G \in SUBSET (SUBSET st.nodes \ {{}}) :
     (DownwardClosed(G) /\ \A k \in Keys(st) : KN(k) \in G) => CF \subseteq G
ClosureKeepsNodes == Closure(st).nodes = st.nodes /\ Covered(Closure(st)) = Covered(st)
ClosureWellFormed == WellFormed(Closure(st))
=============================================================================
