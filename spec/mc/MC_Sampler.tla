---------------------------- MODULE MC_Sampler ----------------------------
(***************************************************************************)
(* C16 on the design: the sampler's state machine (Sampler.tla) explored   *)
(* exhaustively over N nodes and NEdges hyperedges, for ALL outcomes of    *)
(* the random choices (which nodes rng.choice returns, which pair is       *)
(* reshuffled and how, accepted or not, any number of steps between two    *)
(* yields, every raw weight in 0..MaxW).                                   *)
(* Degree sequences are explored up to node symmetry (non-increasing).     *)
(* A sampler object may serve several calls of sample(): the flag is never *)
(* reset between them, so a call starts with any flag in Flags0 that an    *)
(* earlier call may have left (a fresh object: "none").                    *)
(***************************************************************************)
EXTENDS Sampler
CONSTANTS N,        \* nodes are the code indices 0..N-1
          NEdges,   \* hyperedges asked for / in the initial hypergraph
          MaxDeg,   \* degrees 0..MaxDeg
          MinW,     \* 0: a raw weight may come out as "zero" (numerical underflow); 1: truncated Poisson as defined
          MaxW,     \* raw truncated-Poisson weights MinW..MaxW
          Flags0,   \* subset of {"none", "yes", "no"}: matching_sequences when the call starts
          Modes     \* subset of {"init", "seqs", "partial", "model"}

Node == 0..(N - 1)
Lab  == [n \in Node |-> 10 * (N - n) + 1]          \* order-reversing, sparse labels
Labels == {Lab[n] : n \in Node}
Edges2 == {e \in SUBSET Node : Cardinality(e) >= 2}
Pairs  == {e \in SUBSET Node : Cardinality(e) = 2}

VARIABLES mode, deg0, sizes0        \* what the caller conditioned on (never changes)
vars == <<svars, mode, deg0, sizes0>>

Cnd == [mode |-> mode, deg |-> [l \in Labels |-> deg0[CHOOSE n \in Node : Lab[n] = l]],
        sizes |-> sizes0, maxsize |-> N]

SortedDeg == {d \in [Node -> 0..MaxDeg] : \A a, b \in Node : a < b => d[a] >= d[b]}
Zeros == [n \in Node |-> 0]

InitSeqs ==        \* deg_seq and dim_seq given (pad), only deg_seq given ("partial": shrink)
  /\ mode \in Modes \cap {"seqs", "partial"}
  /\ deg0 \in SortedDeg /\ sizes0 \in [1..NEdges -> 1..N]
  /\ rem = deg0 /\ todo = sizes0 /\ chain = <<>> /\ fixed = <<>> /\ flag \in Flags0
  /\ pad = (mode = "seqs") /\ keys = {deg0[n] : n \in Node} /\ phase = "build"
InitModel ==       \* nothing given: sizes 3..N from the model, one fixed dyadic hyperedge or none
  /\ mode \in Modes \cap {"model"}
  /\ deg0 \in SortedDeg /\ sizes0 \in [1..(NEdges - 1) -> 3..N]
  /\ rem = deg0 /\ todo = sizes0 /\ chain = <<>> /\ flag \in Flags0
  /\ fixed \in {<<>>} \cup {<<p>> : p \in Pairs}
  /\ pad = TRUE /\ keys = {deg0[n] : n \in Node} /\ phase = "build"
InitHyg ==         \* initial_hyg: NEdges distinct hyperedges of size >= 2, in any listing order
  /\ mode \in Modes \cap {"init"}
  /\ chain \in {c \in [1..NEdges -> Edges2] : NoCoincidence(c)}
  /\ deg0 = [n \in Node |-> ListDeg(chain, n)]
  /\ sizes0 = [i \in 1..NEdges |-> Cardinality(chain[i])]
  /\ rem = Zeros /\ todo = <<>> /\ fixed = <<>> /\ flag \in Flags0 /\ pad = TRUE /\ keys = {0} /\ phase = "run"
Init == /\ lab = Lab /\ out = NoOut /\ clean = FALSE
        /\ (InitSeqs \/ InitModel \/ InitHyg)

(* --- step assertions (evaluated on the transition taken; Assert => TLC error) --- *)
MoveProps(i, j, p) ==
  Assert(MovePreserves(chain[i], chain[j], p[1], p[2]) /\ Reshuffle(chain[i], chain[j], p[1], p[2]), <<"MovePreserves", chain, i, j, p>>)
YieldProps(wts) ==
  LET L == chain \o fixed   W == YieldOut(L, wts, Lab)   R(i) == wts[i] IN
  /\ Assert(HTotalW(W) = SSum(R, DOMAIN L), <<"WeightConserved", L, wts>>)           \* merged by summing, nothing else lost
  /\ Assert(DOMAIN W = {Image(Lab, L[i]) : i \in {i \in DOMAIN L : wts[i] > 0}}, <<"ZeroDroppedOnly", L, wts>>)

Next ==
  \/ \E c \in SUBSET Node : Extract(Head(todo), c) /\ UNCHANGED <<mode, deg0, sizes0>>
  \/ Finish /\ UNCHANGED <<mode, deg0, sizes0>>
  \/ \E i, j \in DOMAIN chain : i # j /\ \E p \in Splits(chain[i], chain[j]) : \E acc \in BOOLEAN :
        McmcStep(i, j, p[1], p[2], acc) /\ MoveProps(i, j, p) /\ UNCHANGED <<mode, deg0, sizes0>>
  \/ \E wts \in [DOMAIN (chain \o fixed) -> MinW..MaxW] : Yield(wts) /\ YieldProps(wts) /\ UNCHANGED <<mode, deg0, sizes0>>
  \/ Resume /\ UNCHANGED <<mode, deg0, sizes0>>
Spec == Init /\ [][Next]_vars

(* --- the enumerations used above are exactly the relations the validator uses --- *)
ASSUME \A f1, f2 \in SUBSET (0..3) :
   Splits(f1, f2) = {p \in (SUBSET (f1 \cup f2)) \X (SUBSET (f1 \cup f2)) : Reshuffle(f1, f2, p[1], p[2])}
ASSUME \A r \in [0..2 -> 0..2], z \in 1..3, pd \in BOOLEAN : \A c \in Choices(r, z, pd) :
   /\ c \subseteq 0..2
   /\ \A n \in 0..2 : /\ ExtractRem(r, c)[n] \in {r[n], r[n] - 1} /\ ExtractRem(r, c)[n] >= 0
                      /\ (ExtractRem(r, c)[n] < r[n]) => n \in c

(* --- invariants --------------------------------------------------------------------- *)
Conditioning == mode = "init" \/ (mode = "seqs" /\ flag # "no")
TypeOK == /\ \A n \in Node : rem[n] \in 0..MaxDeg
          /\ flag \in {"none", "yes", "no"} /\ phase \in {"build", "run"}
          /\ (phase = "run" /\ mode # "init") => flag # "none"
          /\ (flag = "none") => "none" \in Flags0                 \* the flag is never reset
          /\ \A i \in DOMAIN chain : chain[i] \subseteq Node
\* never a singleton (nor an empty hyperedge) in the chain, whatever was asked
NeverSingleton == \A i \in DOMAIN chain : Cardinality(chain[i]) >= 2
\* the chain never gives a node more than its conditioned degree (while the flag is not False),
\* hence no yielded hypergraph does
AllAtLeastTwo == \A i \in DOMAIN sizes0 : sizes0[i] >= 2
DegNeverExceeds ==
  /\ (Conditioning \/ mode = "partial") => \A n \in Node : ListDeg(chain, n) + rem[n] <= deg0[n]
  /\ (Conditioning /\ AllAtLeastTwo) => \A n \in Node : ListDeg(chain, n) + rem[n] = deg0[n]
  /\ (out.ok /\ Conditioned(Cnd, flag)) => DegNotExceeded(Cnd, out.W)
\* size counts are respected even when the sequences do not match (padding keeps the size asked for;
\* a size of 1 is extracted and dropped)
SizeCountNeverExceeds ==
  /\ mode \in {"init", "seqs", "model"} => \A z \in 2..N : ListCount(chain, z) + Cnt(todo, z) = Cnt(sizes0, z)
  /\ (out.ok /\ mode \in {"init", "seqs"}) => SizeNotExceeded(Cnd, out.W)
\* exactness whenever no two sampled hyperedges coincided (and no weight underflowed); its only
\* black-box reading - as many hyperedges as asked for - is sound, and equivalent when all sizes >= 2.
\* The statement itself has no exemption for an underflowing weight: with truncated-Poisson weights as
\* defined (MinW >= 1) the list of sampled hyperedges alone decides (the chain does not move between a
\* Yield and the Resume, so `chain \o fixed` is the list that was weighted) - whatever happened in
\* earlier samples and whatever flag an earlier call left.
ExactWhenNoCoincidence ==
  (out.ok /\ Conditioned(Cnd, flag) /\ TotalsEqual(Cnd)) =>
      /\ (clean /\ AllAtLeastTwo) => ExactOut(Cnd, out.W)
      /\ NothingLost(Cnd, out.W) => (clean /\ ExactOut(Cnd, out.W))
      /\ AllAtLeastTwo => (clean <=> NothingLost(Cnd, out.W))
      /\ (MinW >= 1 /\ AllAtLeastTwo /\ NoCoincidence(chain \o fixed)) => ExactOut(Cnd, out.W)
      /\ (AllAtLeastTwo /\ NoCoincidence(chain \o fixed) /\ ~ExactOut(Cnd, out.W)) => ~clean    \* only an underflow loses one
\* what the validator's model clauses m_yield_size_counts / m_yield_degrees demand of the list at a yield
ChainComplete ==
  (phase = "run" /\ AllAtLeastTwo) =>
      /\ mode \in {"init", "seqs"} => Len(chain) = Len(sizes0)
      /\ (Conditioned(Cnd, flag) /\ TotalsEqual(Cnd)) => \A n \in Node : ListDeg(chain, n) = deg0[n]
\* a matching flag with equal totals means the construction used every degree
MatchingMeansExhausted ==
  (phase = "run" /\ mode = "seqs" /\ flag = "yes" /\ TotalsEqual(Cnd)) => \A n \in Node : rem[n] = 0
OutputWellFormed == out.ok => WellFormedOut(Cnd, Labels, out.W)
\* the whole post-condition the validator applies to the real sampler
PostHolds == out.ok => SamplerPost(Cnd, flag, Labels, out.W)
=============================================================================
