---------------------------- MODULE MC_TempCorr ----------------------------
(* X06 on the design: identities that the definitions of TempCorr.tla imply, in every *)
(* reachable state of the bounded temporal container (Kind = "temp").  The input of   *)
(* the correlation functions is read off the state: orders 1..N-1, times 0..max(XS)   *)
(* (a time of the horizon without hyperedge contributes zero matrices: "gaps").       *)
(* All identities are on the integer numerators (the common denominator               *)
(* T^2 (T - tau) d1! d2! of TCDen is positive and symmetric in d1, d2) or on the      *)
(* rationals built from them.  Each identity is an operator over the tables           *)
(* (adj, tot, cen, num, fun); TCDesign evaluates the tables once per state and names  *)
(* the identity that fails; the zero-argument forms can be used as INVARIANTs alone.  *)
EXTENDS MC_HGX, TempCorr
CONSTANT TCMaxKeys

TCT == SetMax(XS) + 1                    \* number of times of the input
TCD == Cardinality(Node) - 1             \* orders of the input
TCRows == TCAscending(st.nodes)         \* the numbering of the input: ascending node ids
TCN == Cardinality(st.nodes)
TCX == 1..TCN                            \* positions
\* exploration bound: at most TCMaxKeys hyperedges, none of size 1 (order 0 is not an input of these functions)
TCBound == Cardinality(Keys(st)) <= TCMaxKeys /\ \A k \in Keys(st) : KSize(k) >= 2

TCAbs(i) == IF i < 0 THEN 0 - i ELSE i
TCNeg(q) == <<0 - q[1], q[2]>>
TCConstantInTime(rows, d) == \A t, u \in TCTimes(TCT), n, m \in TCX : TempAdjD(st, d, t, rows[n], rows[m]) = TempAdjD(st, d, u, rows[n], rows[m])

\* the input: the time total is the annealed numerator of X01-f, the centred matrices sum to zero over time and are
\* symmetric with a zero diagonal (so the transposition in X X^T is immaterial: X_d1(t) X_d2(u)^T = X_d1(t) X_d2(u))
PInputCentred(rows, adj, tot, cen) ==
  \A d \in TCOrders(TCD), n, m \in TCX :
     /\ tot[d][n][m] = AnnealedNumD(st, d, rows[n], rows[m])
     /\ LET F(t) == cen[d][t][n][m] IN TCSumI(F, 0, TCT - 1) = 0
     /\ \A t \in TCTimes(TCT) : /\ cen[d][t][n][m] = cen[d][t][m][n] /\ cen[d][t][n][n] = 0
                                /\ adj[d][t][n][m] = TempAdjD(st, d, t, rows[n], rows[m])

\* lag 0: C_{d1,d2}(0) = C_{d2,d1}(0)^T; in particular the intra-order matrix is symmetric
PLagZeroSymmetric(num) ==
  \A d1, d2 \in TCOrders(TCD), n, m \in TCX : num[d1][d2][0][n][m] = num[d2][d1][0][m][n]

\* sigma_d = c_d(0) is a sum of squares: >= 0, and 0 exactly when the order-d adjacency never changes; the lag-0
\* intra-order matrix is a Gram matrix (diagonal >= 0, 2 x 2 minors >= 0)
PLagZeroSumOfSquares(rows, cen, num, fun) ==
  \A d \in TCOrders(TCD) :
     /\ LET Sq(t) == LET R(n) == LET Q(k) == cen[d][t][n][k] * cen[d][t][n][k] IN TCSumI(Q, 1, TCN) IN TCSumI(R, 1, TCN)
        IN fun[d][d][0] = TCSumI(Sq, 0, TCT - 1)
     /\ fun[d][d][0] >= 0
     /\ (fun[d][d][0] = 0) <=> TCConstantInTime(rows, d)
     /\ \A n, m \in TCX : /\ num[d][d][0][n][n] >= 0
                          /\ num[d][d][0][n][m] * num[d][d][0][n][m] <= num[d][d][0][n][n] * num[d][d][0][m][m]

\* Cauchy-Schwarz.  On the numerators |f_{d1,d2}(tau)| <= sqrt(f_{d1,d1}(0) f_{d2,d2}(0)), i.e. with the 1/(T - tau)
\* normalisation of the definitions  (T - tau) |c_{d1,d2}(tau)| <= T sqrt(sigma_d1 sigma_d2)  and, within one order,
\* (T - tau) |c_d(tau)| <= T c_d(0).  (|c_d(tau)| <= c_d(0) itself is NOT implied: a pair of nodes in 2, 1, 1, 0
\* hyperedges of the order at T = 4 times has c(3) = -1 and c(0) = 1/2 per entry.)  Hence |normalised cross
\* function| <= T / (2 (T - tau)) and |gap| <= T / (T - tau).
PCauchySchwarz(fun) ==
  \A d1, d2 \in TCOrders(TCD), tau \in TCLags(TCT) :
     /\ fun[d1][d2][tau] * fun[d1][d2][tau] <= fun[d1][d1][0] * fun[d2][d2][0]
     /\ TCAbs(fun[d1][d1][tau]) <= fun[d1][d1][0]
     /\ LET g == TCGapTimesNorm(fun, TCT, d1, d2, tau)[1] IN g * g <= 4 * fun[d1][d1][0] * fun[d2][d2][0]
     \* the same within one order, on the rationals of the definitions
     /\ LET c == TCIntraFun(fun, TCT, d1, tau)   s == TCSigma(fun, TCT, d1)
        IN RLeq(<<(TCT - tau) * TCAbs(c[1]), c[2]>>, <<TCT * s[1], s[2]>>)

\* the gap function: antisymmetric, zero within one order and at lag 0 (trace(X Y^T) = trace(Y X^T)); it is the
\* difference of the two cross-order functions; the normalisation is symmetric in the two orders
PGapIdentities(fun) ==
  \A d1, d2 \in TCOrders(TCD) :
     /\ fun[d1][d2][0] = fun[d2][d1][0]
     /\ TCGapTimesNorm(fun, TCT, d1, d2, 0)[1] = 0
     /\ RSame(TCNormSquared(fun, TCT, d1, d2), TCNormSquared(fun, TCT, d2, d1))
     /\ TCNormPositive(fun, d1, d2) <=> (TCNormSquared(fun, TCT, d1, d2)[1] > 0)
     /\ \A tau \in TCLags(TCT) :
           LET g == TCGapTimesNorm(fun, TCT, d1, d2, tau)   h == TCGapTimesNorm(fun, TCT, d2, d1, tau) IN
           /\ TCGapTimesNorm(fun, TCT, d1, d1, tau)[1] = 0
           /\ g[1] = 0 - h[1] /\ g[2] = h[2] /\ g[2] > 0
           /\ RSame(g, RAdd(TCCrossFun(fun, TCT, d1, d2, tau), TCNeg(TCCrossFun(fun, TCT, d2, d1, tau))))

\* the centred matrices sum to zero over time, so the lagged sums of the two directions cancel:
\* SUM_{tau >= 0} (T - tau) C_{d1,d2}(tau) + SUM_{tau >= 1} (T - tau) C_{d2,d1}(tau)^T = 0
PLagSumsCancel(num) ==
  \A d1, d2 \in TCOrders(TCD), n, m \in TCX :
     LET F(tau) == num[d1][d2][tau][n][m]
         B(tau) == num[d2][d1][tau][m][n]
     IN TCSumI(F, 0, TCT - 1) + TCSumI(B, 1, TCT - 1) = 0

\* an order whose adjacency never changes (in particular an order without hyperedges) is uncorrelated with everything
PConstantOrderVanishes(rows, num) ==
  \A d \in TCOrders(TCD) : TCConstantInTime(rows, d) =>
     \A e \in TCOrders(TCD), tau \in TCLags(TCT), n, m \in TCX : num[d][e][tau][n][m] = 0 /\ num[e][d][tau][n][m] = 0

\* intra-order = cross-order with twice the same order; denominators positive and symmetric; the function is the trace
PIntraIsCrossOfEqualOrders(num, fun) ==
  \A d \in TCOrders(TCD), e \in TCOrders(TCD), tau \in TCLags(TCT) :
     /\ TCDen(TCT, d, e, tau) > 0 /\ TCDen(TCT, d, e, tau) = TCDen(TCT, e, d, tau)
     /\ TCDen(TCT, d, d, tau) = (TCT - tau) * (TCT * XFact(d)) * (TCT * XFact(d))
     /\ TCIntraFun(fun, TCT, d, tau) = TCCrossFun(fun, TCT, d, d, tau)
     /\ \A n, m \in TCX : TCIntra(num, TCT, d, tau, n, m) = TCCross(num, TCT, d, d, tau, n, m)
     /\ LET F(n) == TCCross(num, TCT, d, e, tau, n, n) IN RSame(RSumSet(F, TCX), TCCrossFun(fun, TCT, d, e, tau))

\* the documented keys of the all-orders dictionaries: one per order, one per ORDERED pair of orders; the pairs
\* d1 <= d2 and their mirror images are exactly all of them, the diagonal being its own mirror image
TCAllOrdersKeys ==
  \A M \in 0..TCD :
     /\ Cardinality(TCOrders(M)) = M
     /\ Cardinality(TCPairs(M)) = M * M
     /\ TCUpper(M) \cup TCMirror(TCUpper(M)) = TCPairs(M)
     /\ TCUpper(M) \cap TCMirror(TCUpper(M)) = {<<d, d>> : d \in TCOrders(M)}
     /\ 2 * Cardinality(TCUpper(M)) = M * M + M

TCNamed(name, holds) == holds \/ Assert(FALSE, <<"X06 design identity fails", name>>)
\* (TLC evaluates an invariant on every generated successor that fails the CONSTRAINT as well, each time it is
\* generated: the identities are demanded of the states inside the bound only)
TCDesign == (TCBound /\ Bound) =>
  LET rows == TCRows
      adj == TCAdj(st, rows, TCT, TCD)
      tot == TCTotal(adj, TCN, TCT, TCD)
      cen == TCCentredOf(adj, tot, TCN, TCT, TCD)
      num == TCNumTableOf(cen, TCN, TCT, TCD)
      fun == TCFunTable(num, TCN, TCT, TCD)
  IN /\ TCNamed("TCInputCentred", PInputCentred(rows, adj, tot, cen))
     /\ TCNamed("TCLagZeroSymmetric", PLagZeroSymmetric(num))
     /\ TCNamed("TCLagZeroSumOfSquares", PLagZeroSumOfSquares(rows, cen, num, fun))
     /\ TCNamed("TCCauchySchwarz", PCauchySchwarz(fun))
     /\ TCNamed("TCGapIdentities", PGapIdentities(fun))
     /\ TCNamed("TCLagSumsCancel", PLagSumsCancel(num))
     /\ TCNamed("TCConstantOrderVanishes", PConstantOrderVanishes(rows, num))
     /\ TCNamed("TCIntraIsCrossOfEqualOrders", PIntraIsCrossOfEqualOrders(num, fun))
     /\ TCNamed("TCAllOrdersKeys", TCAllOrdersKeys)

\* a deliberately false identity (used once by the driver to show that the exploration can refute): the naive bound
\* |c_d(tau)| <= c_d(0) on the rationals; it needs a pair of nodes in two hyperedges of one order (4 nodes)
TCNaiveBound == (TCBound /\ Bound) =>
  LET num == TCNumTable(st, TCRows, TCT, TCD)
      fun == TCFunTable(num, TCN, TCT, TCD)
  IN \A d \in TCOrders(TCD), tau \in TCLags(TCT) :
        LET c == TCIntraFun(fun, TCT, d, tau)   s == TCSigma(fun, TCT, d) IN RLeq(<<TCAbs(c[1]), c[2]>>, s)
=============================================================================
