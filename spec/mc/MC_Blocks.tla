---------------------------- MODULE MC_Blocks ----------------------------
(* The block formulas of Blocks.tla against the general definitions of      *)
(* Derive.tla / HGX.tla, exhaustively: every parameter sequence of at most   *)
(* MaxBlocks well-formed blocks of at most MaxN nodes (grown one block at a  *)
(* time, so that the states are checked by all workers), every filter        *)
(* "none", "eq z" (and "upto z" when FKinds says so), z in 1..MaxN+1.        *)
EXTENDS Blocks
CONSTANTS MaxN, MaxBlocks, FKinds
VARIABLE ps

BlockTypes == {b \in [shape : Shapes, n : 1..MaxN, p : 0..MaxN] : WFBlock(b)}
Init == ps = <<>>
Next == Len(ps) < MaxBlocks /\ \E b \in BlockTypes : ps' = Append(ps, b)

Fs == {<<"none", 0>>} \cup {<<k, z>> : k \in FKinds, z \in 1..(MaxN + 1)}
S  == Expand(ps)
Some == ps # <<>>

\* the expansion is a hypergraph over 1..Total; blocks are disjoint intervals that cover it
ExpansionWellFormed ==
  /\ WFParams(ps)
  /\ WellFormed(S)
  /\ UNION {BNodes(ps, i) : i \in DOMAIN ps} = S.nodes
  /\ \A i, j \in DOMAIN ps : i # j => BNodes(ps, i) \cap BNodes(ps, j) = {}
  /\ \A v \in S.nodes : v \in BNodes(ps, BlockOf(ps, v))
  /\ Cardinality(Keys(S)) = NumEdgesAll(ps)

\* B2: the parts are the components, for every filter
PartsAreComponents == \A f \in Fs :
  /\ Components(S, f) = BComponents(ps, f)
  /\ \A v \in S.nodes : CompOf(S, v, f) = BCompOf(ps, v, f)
  /\ Isolated(S, f) = BIsolated(ps, f)

\* ... and the closed forms count them
ClosedForms == \A f \in Fs :
  /\ \A i \in DOMAIN ps : LET b == ps[i] IN
       /\ BNumParts(b, f) = Cardinality(BParts(b, f))
       /\ BMaxPart(b, f) \in {Cardinality(c) : c \in BParts(b, f)}
       /\ \A c \in BParts(b, f) : Cardinality(c) <= BMaxPart(b, f)
       /\ BIsoCount(b, f) = Cardinality({c \in BParts(b, f) : Cardinality(c) = 1})
       /\ (b.shape = "bigpend" => \A m \in 1..Big(b) : NGuests(b, m) = Cardinality(Guests(b, m)))
  /\ BNumComponents(ps, f) = Cardinality(Components(S, f))
  /\ BNumIsolated(ps, f) = Cardinality(Isolated(S, f))
  /\ Some => BLargest(ps, f) = LargestSize(S, f)

\* B1: without a filter everything is read off the parameter list
Headline == LET f == <<"none", 0>> IN
  /\ Components(S, f) = B1Components(ps)
  /\ Cardinality(Components(S, f)) = Len(ps)
  /\ \A v \in S.nodes : CompOf(S, v, f) = BNodes(ps, BlockOf(ps, v))
  /\ Some => LargestSize(S, f) = B1Largest(ps)
  /\ (Cardinality(Components(S, f)) = 1) <=> B1Connected(ps)
  /\ Isolated(S, f) = B1Isolated(ps)

\* B3: degrees and sizes
DegreesByShape == \A f \in Fs :
  /\ \A v \in S.nodes : Degree(S, v, f) = BDegAt(ps, v, f)
  /\ \A i \in DOMAIN ps :
       LET D(v) == BDeg(ps[i], v, f) IN SumSet(D, 1..ps[i].n) = BDegTotal(ps[i], f)
  /\ LET Z(k) == KSize(k) IN SumSet(Z, EdgesF(S, f)) = DegTotalAll(ps, f)
SizesByShape ==
  /\ \A z \in 1..(MaxN + 1) : Cardinality({k \in Keys(S) : KSize(k) = z}) = SizeCountAll(ps, z)
  /\ {KSize(k) : k \in Keys(S)} = SizesAll(ps)
  /\ Some /\ Keys(S) # {} => DOMAIN SizesBag(S) = SizesAll(ps) /\ \A z \in SizesAll(ps) : SizesBag(S)[z] = SizeCountAll(ps, z)

\* non-vacuity probes: TLC must refute these
ProbeNeverDust == \A f \in Fs : BNumComponents(ps, f) = Len(ps)
ProbeNoPendants == \A i \in DOMAIN ps : ps[i].shape # "bigpend"
=============================================================================
