---------------------------- MODULE MC_Contagion ----------------------------
(* C18 on the design: all hypergraphs over Node with hyperedge sizes          *)
(* ZMin..ZMax, all initial infected sets, all rate triples in {0, mid, 1}^3,  *)
(* horizon T.  `par` holds the run's parameters (chosen in the initial state, *)
(* never changed), `out` the vector of infected counts written so far.        *)
EXTENDS Contagion
CONSTANTS Node, ZMin, ZMax, T, KeepOut
VARIABLES par, out
vars == <<I, t, par, out>>

Levels == {"0", "mid", "1"}
EdgeU == {e \in SUBSET Node : ZMin <= Cardinality(e) /\ Cardinality(e) <= ZMax}
MkHG(V, Es) == [nodes |-> V,
                E     |-> [k \in {Key(e, {}, 0) : e \in Es} |-> [w |-> 1, md |-> NoMeta]],
                nmd   |-> [n \in V |-> NoMeta], hmd |-> NoMeta, wtd |-> FALSE]
Rates == [beta : Levels, betaD : Levels, mu : Levels]

\* the initial infected set is remembered only when the written vector is (KeepOut)
Init == /\ I \in SUBSET Node /\ t = 1
        /\ par \in [S : {MkHG(Node, Es) : Es \in SUBSET EdgeU}, r : Rates, I0 : {IF KeepOut THEN I ELSE {}}]
        /\ out = <<Cardinality(I)>>
N == Cardinality(Node)

\* step assertions: evaluated on the transition actually taken
MonotoneUpIfMuZero        == par.r.mu = "0" => (I \subseteq I' /\ Cardinality(I') >= Cardinality(I))
MonotoneDownIfNoInfection == (par.r.beta = "0" /\ par.r.betaD = "0") => (I' \subseteq I /\ Cardinality(I') <= Cardinality(I))
DeterministicStep         == Deterministic(par.r) => (SweepSucc(par.S, I, par.r) = {I'} /\ I' = DetSweep(par.S, I, par.r))
OnlyOldStateRead          == SweepOK(par.S, I, par.r, I')
Next == /\ Sweep(par.S, par.r, T)
        /\ out' = IF KeepOut THEN Append(out, Cardinality(I')) ELSE out
        /\ UNCHANGED par
        /\ Assert(MonotoneUpIfMuZero, <<"MonotoneUpIfMuZero", par, I, I'>>)
        /\ Assert(MonotoneDownIfNoInfection, <<"MonotoneDownIfNoInfection", par, I, I'>>)
        /\ Assert(DeterministicStep, <<"DeterministicStep", par, I, I'>>)
        /\ Assert(OnlyOldStateRead, <<"OnlyOldStateRead", par, I, I'>>)

\* invariants
DeterministicRegimesFunctional == Deterministic(par.r) => Cardinality(SweepSucc(par.S, I, par.r)) = 1
FractionsInUnit == I \subseteq Node /\ \A x \in DOMAIN out : 0 <= out[x] /\ out[x] <= N
StartsAtInitial == Len(out) >= 1 /\ (t = 1 => out[1] = Cardinality(I)) /\ (KeepOut => out[1] = Cardinality(par.I0))
HorizonRespected == t <= T /\ (KeepOut => Len(out) = t)
\* (only with KeepOut) the counts written so far are exactly what DetTrajectory / CountsFeasible say
OutIsTrajectory == KeepOut =>
   /\ Deterministic(par.r) => \A x \in DOMAIN out : DetTrajectory(par.S, par.I0, par.r, T)[x] = out[x]
   /\ CountsFeasible(par.S, par.I0, par.r, out)
\* an empty infected set is absorbing; nothing is infected without infected nodes
DeadStaysDead == SweepSucc(par.S, {}, par.r) = {{}}
\* hyperedges of size other than 2 and 3 play no role
OnlyPairsAndTriangles ==
   LET S2 == MkHG(Node, {e \in HE(par.S) : Cardinality(e) \in {2, 3}})
   IN MustIn(S2, I, par.r) = MustIn(par.S, I, par.r) /\ MayIn(S2, I, par.r) = MayIn(par.S, I, par.r)
=============================================================================
