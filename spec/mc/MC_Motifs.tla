---------------------------- MODULE MC_Motifs ----------------------------
(* C11 on the design.                                                          *)
(*  - ASSUMEs (evaluated once, before exploration): the number of isomorphism  *)
(*    classes of connected patterns is 6 (3 nodes) and 171 (4 nodes); classes  *)
(*    partition the connected labelled patterns; the tuple order is a strict   *)
(*    total order with exactly one canonical pattern per directed class.       *)
(*  - invariants, in every state of the container model that has all of Node   *)
(*    as nodes, unit weights and no metadata (Node = 1..n):                    *)
(*    Kind = "hg": every hypergraph on Node with hyperedge sizes 1..n;         *)
(*    Kind = "dir": every directed hypergraph on Node.                         *)
(*    Each is reached exactly once, by add_edge calls in increasing key order. *)
EXTENDS HGXOps, Motifs
VARIABLE st

MaskOf(A) == LET F(n) == Pow(2, n - 1) IN SumSet(F, A)
KeyNo == [k \in KeyU |-> MaskOf(k.s) * Pow(2, Cardinality(Node)) + MaskOf(k.t)]      \* a numbering of the keys
Init == st = WithNodes(Empty(Weighted, TypeName), Node)
Next == \E k \in KeyU : /\ \A j \in Keys(st) : KeyNo[j] < KeyNo[k]
                        /\ st' \in AddEdge(st, k, 0, FALSE, NoMeta)
Bound == TRUE
TypeOK == WellFormed(st) /\ st.nodes = Node

Hg == HEdges(st)
NodePerms == Bijections(Node)
\* adjacent transpositions generate all permutations of Node; the universe explored is closed under
\* relabelling, so invariance of every hypergraph under the generators is invariance under all of them
Swap(i) == [n \in Node |-> IF n = i THEN i + 1 ELSE IF n = i + 1 THEN i ELSE n]
GenPerms == {Swap(i) : i \in 1..(Cardinality(Node) - 1)}
HRelabel(f, G) == {{f[n] : n \in e} : e \in G}
Orders == {k \in {3, 4} : k <= Cardinality(Node)}

(* ---- constant-level facts (those about undirected patterns are evaluated in the "hg" runs, ---- *)
(* ---- those about the directed encoding in the "dir" runs)                                  ---- *)
\* 6 and 171 classes; the classes partition the connected labelled patterns (so "the class of a
\* pattern" is well defined and connectedness is a property of the class); the cached tables of
\* Motifs.tla are the definitions and ClassOf finds the orbit
ClassFacts(k, nclasses, npatterns) ==
   LET cls == Classes(k)  cp == ConnPatterns(k) IN
   /\ Cardinality(cls) = nclasses /\ Cardinality(cp) = npatterns
   /\ UNION cls = cp
   /\ \A c1, c2 \in cls : (c1 # c2) => (c1 \cap c2 = {})
   /\ cls = ClassSet(k)
   /\ \A P \in SUBSET EdgeUniverse(k) : ClassOf(P, k) = IF Connected(P, k) THEN Orbit(P, k) ELSE {}
ASSUME ClassCount3 == Kind = "hg" => ClassFacts(3, 6, 12)
ASSUME ClassCount4 == Kind = "hg" => ClassFacts(4, 171, 1990)

\* every directed pattern with one or two hyperedges over 1..4
SmallDPatterns == {{e, g} : e, g \in DEdgeU(4)}
ASSUME DEdgeCount == Kind = "dir" => Cardinality(DEdgeU(3)) = 12 /\ Cardinality(DEdgeU(4)) = 50
\* the order on encoded hyperedges is a strict total order, and the integer codes follow it
ASSUME EdgeOrderTotal == Kind = "dir" => \A e, g \in DEdgeU(4) :
   /\ ~(EdgeLess(e, g) /\ EdgeLess(g, e))
   /\ (e # g) => (EdgeLess(e, g) \/ EdgeLess(g, e))
ASSUME EdgeOrderTransitive == Kind = "dir" =>
   \A e, g, h \in DEdgeU(3) : (EdgeLess(e, g) /\ EdgeLess(g, h)) => EdgeLess(e, h)
ASSUME CodeOrderIsTupleOrder == Kind = "dir" => \A k \in {3, 4} : \A e, g \in DEdgeU(k) :
   EdgeLess(e, g) <=> (EdgeCode(e, k) < EdgeCode(g, k))
\* exactly one pattern with a minimal encoding in the orbit of every 1- or 2-hyperedge pattern on 4 nodes
\* (1275 patterns); IsCanonical singles it out and agrees with the definition
ASSUME CanonUniqueSmall4 == Kind = "dir" => \A P \in SmallDPatterns :
   LET orb  == DOrbit(P, 4)
       cd   == [Q \in orb |-> Codes(Q, 4)]
       mins == {Q \in orb : \A R \in orb : ~CodeLess(cd[R], cd[Q])}
   IN /\ Cardinality(mins) = 1
      /\ IsCanonical(P, 4) <=> (P \in mins)
      /\ IsCanonical(P, 4) <=> IsCanonicalDef(P, 4)
      /\ Canon(P, 4) \in mins

(* ---- invariants over all hypergraphs ("hg") -------------------- *)
CensusRelabelInvariant == \A k \in Orders : \A f \in GenPerms :
   CensusNZ(HRelabel(f, Hg), Node, k) = CensusNZ(Hg, Node, k)
CensusRelabelInvariantAllPerms == \A k \in Orders : \A f \in NodePerms :
   CensusNZ(HRelabel(f, Hg), Node, k) = CensusNZ(Hg, Node, k)
CensusIgnoresLarge == \A k \in Orders :
   CensusNZ({e \in Hg : Cardinality(e) <= k}, Node, k) = CensusNZ(Hg, Node, k)
\* singletons and nodes outside every larger hyperedge are irrelevant
CensusIgnoresSingletons == \A k \in Orders :
   LET big == {e \in Hg : Cardinality(e) >= 2} IN CensusNZ(big, UNION big, k) = CensusNZ(Hg, Node, k)
\* Census is CensusNZ completed by zeros, and its total is the number of connected k-subsets
CensusTotal == \A k \in Orders :
   LET c == Census(Hg, Node, k)  nz == CensusNZ(Hg, Node, k)  V(x) == nz[x] IN
   /\ SumSet(V, DOMAIN nz) = Cardinality(ConnSets(Hg, Node, k))
   /\ \A x \in DOMAIN c : c[x] = IF x \in DOMAIN nz THEN nz[x] ELSE 0
\* the three passes of the enumeration reach every counted subset; what is left to the walk on the
\* 2-node hyperedges shows 2-node hyperedges only (so classifying it by them alone is right)
ThreePassCover == \A k \in Orders :
   LET full == FullSets(Hg, Node, k)
       notfull == IF k = 4 THEN NotFullSets(Hg, Node, k) ELSE {}
       rest == ConnSets(Hg, Node, k) \ (full \cup notfull)
   IN /\ rest \subseteq DyadicSets(Hg, Node, k)
      /\ \A S \in rest : Pattern(Hg, S) = Pattern(Dyadic(Hg), S)
      /\ \A S \in notfull : Pattern(Hg, S) = Pattern({e \in Hg : Cardinality(e) < k}, S)
      /\ full \cup notfull \subseteq ConnSets(Hg, Node, k)

(* ---- invariants over all directed hypergraphs ("dir") ---------- *)
Dg == DEdges(st)
DP == DPattern(Dg, Node)                    \* Node = 1..n, so this is the hypergraph itself as a pattern
DirCanonUnique == LET k == Cardinality(Node) IN Cardinality({Q \in DOrbit(DP, k) : IsCanonical(Q, k)}) = 1
DirCanonRelabelInvariant == LET k == Cardinality(Node) IN
   \A f \in Perms(k) : Canon(DRelabel(f, DP), k) = Canon(DP, k)
\* the integer form of "is canonical" is the definition (order of the nested sorted tuples)
DirCanonIsDefinition == LET k == Cardinality(Node) IN IsCanonical(DP, k) <=> IsCanonicalDef(DP, k)
DirCensusIgnoresLarge == \A k \in 2..Cardinality(Node) : \A S \in KSubsets(Node, k) :
   DPattern({e \in Dg : Cardinality(DNodes(e)) <= k}, S) = DPattern(Dg, S)
=============================================================================
