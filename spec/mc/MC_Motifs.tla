---------------------------- MODULE MC_Motifs ----------------------------
(* C11 on the design.                                                          *)
(*  - ASSUMEs (evaluated once, before exploration): the number of isomorphism  *)
(*    classes of connected patterns is 6 (3 nodes) and 171 (4 nodes); classes  *)
(*    partition the connected labelled patterns; the tuple order is a strict   *)
(*    total order with exactly one canonical pattern per directed class.       *)
(*  - invariants, in every reachable state of the bounded container            *)
(*    (Kind = "hg": every hypergraph on Node with hyperedge sizes 1..|Node|;   *)
(*     Kind = "dir": every directed hypergraph on Node).                       *)
EXTENDS MC_HGX, Motifs

Hg == HEdges(st)
NodePerms == Bijections(Node)
HRelabel(f, G) == {{f[n] : n \in e} : e \in G}
Orders == {k \in {3, 4} : k <= Cardinality(Node)}

(* ---- constant-level facts ---------------------------------------------- *)
ASSUME ClassCount3 == Cardinality(Classes(3)) = 6
ASSUME ClassCount4 == Cardinality(Classes(4)) = 171 /\ Cardinality(ConnPatterns(4)) = 1990
\* the classes partition the connected labelled patterns (so "the class of a pattern" is well defined,
\* and connectedness is a property of the class)
ASSUME ClassesPartition == \A k \in {3, 4} :
   LET Sz(c) == Cardinality(c) IN
   /\ UNION Classes(k) = ConnPatterns(k)
   /\ SumSet(Sz, Classes(k)) = Cardinality(ConnPatterns(k))
\* the cached tables are the definitions
ASSUME TablesAreDefinitions == Classes3 = Classes(3) /\ Classes4 = Classes(4)

\* every directed hyperedge over 1..k / every directed pattern with at most two hyperedges over 1..4
DEdgeU(k) == {p \in (SUBSET (1..k) \ {{}}) \X (SUBSET (1..k) \ {{}}) : p[1] \cap p[2] = {}}
SmallDPatterns == {{e, g} : e, g \in DEdgeU(4)}
ASSUME DEdgeCount == Cardinality(DEdgeU(3)) = 12 /\ Cardinality(DEdgeU(4)) = 50
\* the order on encoded hyperedges is a strict total order
ASSUME EdgeOrderTotal == \A e, g \in DEdgeU(4) :
   /\ ~(EdgeLess(e, g) /\ EdgeLess(g, e))
   /\ (e # g) => (EdgeLess(e, g) \/ EdgeLess(g, e))
   /\ ~EdgeLess(e, e)
ASSUME EdgeOrderTransitive == \A e, g, h \in DEdgeU(3) : (EdgeLess(e, g) /\ EdgeLess(g, h)) => EdgeLess(e, h)
\* one and only one canonical pattern in the orbit of every small pattern on 4 nodes; Canon is constant on orbits
ASSUME CanonUniqueSmall4 == \A P \in SmallDPatterns :
   LET orb == DOrbit(P, 4) IN
   /\ Cardinality({Q \in orb : IsCanonical(Q, 4)}) = 1
   /\ \A Q \in orb : \A R \in orb : (Q # R) => (PatLess(Q, R) \/ PatLess(R, Q))

(* ---- invariants over the reachable hypergraphs ("hg") -------------------- *)
CensusRelabelInvariant == \A k \in Orders : \A f \in NodePerms :
   CensusNZ(HRelabel(f, Hg), Node, k) = CensusNZ(Hg, Node, k)
CensusIgnoresLarge == \A k \in Orders :
   CensusNZ({e \in Hg : Cardinality(e) <= k}, Node, k) = CensusNZ(Hg, Node, k)
\* singletons and nodes outside every hyperedge are irrelevant
CensusIgnoresSingletons == \A k \in Orders :
   CensusNZ({e \in Hg : Cardinality(e) >= 2}, Node, k) = CensusNZ(Hg, st.nodes, k)
\* Census is CensusNZ completed by zeros, and its total is the number of connected k-subsets
CensusTotal == \A k \in Orders :
   LET c == Census(Hg, Node, k)  nz == CensusNZ(Hg, Node, k)  V(x) == c[x] IN
   /\ SumSet(V, DOMAIN c) = Cardinality(ConnSets(Hg, Node, k))
   /\ \A x \in DOMAIN c : c[x] = IF x \in DOMAIN nz THEN nz[x] ELSE 0
\* the three passes of the enumeration reach every counted subset; what is left to the walk on the
\* 2-node hyperedges shows 2-node hyperedges only (so classifying it by them alone is right)
ThreePassCover == \A k \in Orders :
   LET full == FullSets(Hg, Node, k)
       notfull == IF k = 4 THEN NotFullSets(Hg, Node, k) ELSE {}
       rest == ConnSets(Hg, Node, k) \ (full \cup notfull)
   IN /\ rest \subseteq DyadicSets(Hg, Node, k)
      /\ \A S \in rest : Pattern(Hg, S) = Pattern(Dyadic(Hg), S)
      /\ \A S \in notfull : Pattern(Hg, S) = Pattern({e \in Hg : Cardinality(e) < k}, S)
      /\ full \cup notfull \subseteq ConnSets(Hg, Node, k)

(* ---- invariants over the reachable directed hypergraphs ("dir") ---------- *)
Dg == DEdges(st)
DP == DPattern(Dg, Node)                    \* Node = 1..n, so this is the hypergraph itself as a pattern
DirCanonUnique == LET k == Cardinality(Node) IN Cardinality({Q \in DOrbit(DP, k) : IsCanonical(Q, k)}) = 1
DirCanonRelabelInvariant == LET k == Cardinality(Node) IN
   \A f \in Perms(k) : Canon(DRelabel(f, DP), k) = Canon(DP, k)
DirOrderTotalOnOrbit == LET k == Cardinality(Node) IN
   \A Q, R \in DOrbit(DP, k) : (Q # R) => (PatLess(Q, R) # PatLess(R, Q))
DirCensusIgnoresLarge == \A k \in 2..Cardinality(Node) : \A S \in KSubsets(Node, k) :
   DPattern({e \in Dg : Cardinality(DNodes(e)) <= k}, S) = DPattern(Dg, S)
=============================================================================
