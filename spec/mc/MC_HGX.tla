---------------------------- MODULE MC_HGX ----------------------------
(* Exhaustive exploration of the abstract container over a small universe. *)
EXTENDS HGXOps
VARIABLE st
vars == <<st>>

Init == st = Empty(Weighted, TypeName)
Step(o) == IF Valid(st, o) THEN st' \in Succ(st, o) ELSE UNCHANGED st
Bound == \A k \in Keys(st) : st.E[k].w <= MaxW

Filters == {NoF} \cup ({"eq", "upto"} \X (0..Cardinality(Node) + 1))

(* --- invariants of the design ----------------------------------------- *)
TypeOK == WellFormed(st)
\* degrees sum to the total size of the (filtered) hyperedges
DegreeSum == \A f \in Filters :
   LET D(n) == Degree(st, n, f)  Z(k) == KSize(k)
   IN SumSet(D, st.nodes) = SumSet(Z, EdgesF(st, f))
\* a hyperedge is incident exactly to its own nodes
IncidentExact == \A k \in Keys(st), n \in Node : (k \in Incident(st, n, NoF)) <=> (n \in KN(k))
\* roles of a directed hyperedge are disjoint: listed once per role
OncePerRole == \A n \in st.nodes : SourceEdges(st, n, NoF) \cap TargetEdges(st, n, NoF) = {}
\* a node absent from the node set appears in no listing
RemovedNodeGone == \A n \in Node \ st.nodes :
   /\ \A k \in Keys(st) : n \notin KN(k)
   /\ n \notin DOMAIN st.nmd
\* direction is part of the identity of a directed hyperedge
DirectionKept == Kind = "dir" => \A k \in Keys(st) : Key(k.t, k.s, k.x) # k
NeighSym == \A a, b \in st.nodes : (a \in Neigh(st, b, NoF)) <=> (b \in Neigh(st, a, NoF))
DistIsHistogram == \A f \in Filters :
   LET dd == DegDist(st, f) C(d) == dd[d] IN SumSet(C, DOMAIN dd) = Cardinality(st.nodes)

(* --- step properties: evaluated on the transition actually taken (Assert => TLC error) --- *)
\* re-inserting an existing hyperedge adds its weight (weighted) or changes no weight (unweighted)
ReinsertOK(o) == (o.op = "add_edge" /\ o.bad = "" /\ o.k \in Keys(st) /\ Valid(st, o))
                   => /\ Keys(st') = Keys(st)
                      /\ st'.E[o.k].w = IF st.wtd THEN st.E[o.k].w + (IF o.w = 0 THEN 1 ELSE o.w) ELSE 1
                      /\ \A k \in Keys(st) \ {o.k} : st'.E[k] = st.E[k]
\* hyperedge insertions never touch the metadata of existing nodes
NodeMetaSurvivesAddEdge(o) == (o.op \in {"add_edge", "add_edges"}) => \A n \in st.nodes : st'.nmd[n] = st.nmd[n]
\* records with another time / layer / direction are untouched by an operation on one key
KeysIndependent(o) ==
   (o.op \in {"add_edge", "remove_edge", "set_weight", "set_edge_md", "set_attr_edge", "del_attr_edge"})
        => \A k \in Keys(st) \ {o.k} : k \in Keys(st') /\ st'.E[k] = st.E[k]
\* a removed node is gone; other nodes keep their metadata
RemoveNodeOK(o) == (o.op = "remove_node" /\ Valid(st, o))
        => /\ st'.nodes = st.nodes \ {o.n}
           /\ \A n \in st'.nodes : st'.nmd[n] = st.nmd[n]
           /\ ~o.keep => Keys(st') = {k \in Keys(st) : o.n \notin KN(k)}
           /\ o.keep => LET W(S) == LET F(k) == S.E[k].w IN SumSet(F, Keys(S))
                             dropped == {k \in Keys(st) : KN(k) = {o.n}}
                             G(k) == st.E[k].w
                         IN st.wtd => W(st') = W(st) - SumSet(G, dropped)   \* shrinking conserves total weight
StepProps(o) ==
  /\ Assert(ReinsertOK(o), <<"ReinsertOK", o>>)
  /\ Assert(NodeMetaSurvivesAddEdge(o), <<"NodeMetaSurvivesAddEdge", o>>)
  /\ Assert(KeysIndependent(o), <<"KeysIndependent", o>>)
  /\ Assert(RemoveNodeOK(o), <<"RemoveNodeOK", o>>)

Next == \E o \in Ops : Step(o) /\ StepProps(o)
Spec == Init /\ [][Next]_vars
=============================================================================
