---------------------------- MODULE Dec ----------------------------
(* Decoding of logged JSON values into HGX values (shared by all trace modules) *)
EXTENDS HGX
DecKey(j) == Key(Rng(j.s), Rng(j.t), j.x)
DecKeys(sq) == [i \in DOMAIN sq |-> DecKey(sq[i])]
SeqBag(sq) == [v \in Rng(sq) |-> Cardinality({i \in DOMAIN sq : sq[i] = v})]
SetBag(A)  == [v \in A |-> 1]
Pairs2Fun(sq) == [a \in {p[1] : p \in Rng(sq)} |-> (CHOOSE p \in Rng(sq) : p[1] = a)[2]]
DecState(j) ==
  LET ks == {DecKey(e.k) : e \in Rng(j.edges)}
  IN [nodes |-> Rng(j.nodes),
      E     |-> [k \in ks |-> LET e == CHOOSE c \in Rng(j.edges) : DecKey(c.k) = k
                              IN [w |-> e.w, md |-> e.md]],
      nmd   |-> Pairs2Fun(j.nmd),
      hmd   |-> j.hmd,
      wtd   |-> j.wtd]
Has(r, f) == f \in DOMAIN r
\* rationals are <<num, den>> with den > 0; equality by cross-multiplication
RatEq(a, b) == a[1] * b[2] = b[1] * a[2]
RatLe(a, b) == a[1] * b[2] <= b[1] * a[2]
=============================================================================
