---------------------------- MODULE HGX ----------------------------
(***************************************************************************)
(* Abstract model of the four hypergraphx containers.                      *)
(*                                                                         *)
(* One module, parameterised by Kind:                                      *)
(*   "hg"   Hypergraph          key = node set                             *)
(*   "dir"  DirectedHypergraph  key = (source set, target set)             *)
(*   "temp" TemporalHypergraph  key = (time, node set)                     *)
(*   "mux"  MultiplexHypergraph key = (node set, layer)                    *)
(* A key is always the record [s, t, x]: s = nodes (sources when directed),*)
(* t = targets (empty unless directed), x = time / layer (0 otherwise).    *)
(*                                                                         *)
(* An object state is the record                                           *)
(*   [nodes, E : key -> [w, md], nmd : node -> Meta, hmd : Meta, wtd]      *)
(* i.e. "a plain set of nodes plus a map from keys to (weight, metadata)". *)
(* All operators are pure functions of such a record so that the same      *)
(* definitions serve exploration (mc/), trace validation (trace/) and the  *)
(* derived-object modules (Derive, Persist, Filters ...).                  *)
(*                                                                         *)
(* Succ(S, op) is the SET of allowed successor states of a public mutating *)
(* call: empty when the call is not valid (it must then leave the          *)
(* observable state unchanged, whether or not it raises), a singleton when *)
(* the contract is unambiguous and a two-element set in the few corners    *)
(* that the documentation leaves open (DESIGN.md section 5).               *)
(***************************************************************************)
EXTENDS Naturals, Integers, FiniteSets, Sequences, TLC

CONSTANT Kind            \* "hg" | "dir" | "temp" | "mux"

NoMeta == <<>>           \* the empty metadata dictionary

Rng(f) == {f[i] : i \in DOMAIN f}
Restrict(f, D) == [d \in D |-> f[d]]
Upd(f, d, v) == [y \in (DOMAIN f) \cup {d} |-> IF y = d THEN v ELSE f[y]]
Without(f, D) == [d \in (DOMAIN f) \ D |-> f[d]]

---------------------------------------------------------------------------
(* Keys *)
Key(ss, tt, xx) == [s |-> ss, t |-> tt, x |-> xx]
KN(k)    == k.s \cup k.t                           \* node set of a key
KSize(k) == Cardinality(k.s) + Cardinality(k.t)
Drop(k, n) == [k EXCEPT !.s = @ \ {n}, !.t = @ \ {n}]

WFKey(k) == IF Kind = "dir"
            THEN k.s # {} /\ k.t # {} /\ k.s \cap k.t = {}
            ELSE k.s # {} /\ k.t = {}

\* size filters: <<"none",0>>, <<"eq",n>>, <<"upto",n>>   (n is a SIZE)
Pass(k, f) == CASE f[1] = "none" -> TRUE
                [] f[1] = "eq"   -> KSize(k) = f[2]
                [] f[1] = "upto" -> KSize(k) <= f[2]

---------------------------------------------------------------------------
(* States *)
Empty(weighted, typeName) ==
  [nodes |-> {}, E |-> <<>>, nmd |-> <<>>,
   hmd |-> [weighted |-> IF weighted THEN "True" ELSE "False", type |-> typeName],
   wtd |-> weighted]

TypeName == CASE Kind = "hg" -> "Hypergraph" [] Kind = "dir" -> "DirectedHypergraph"
              [] Kind = "temp" -> "TemporalHypergraph" [] Kind = "mux" -> "MultiplexHypergraph"

Keys(S) == DOMAIN S.E
EdgesF(S, f) == {k \in Keys(S) : Pass(k, f)}

WellFormed(S) ==
  /\ \A k \in Keys(S) : WFKey(k) /\ KN(k) \subseteq S.nodes
  /\ DOMAIN S.nmd = S.nodes
  /\ \A k \in Keys(S) : S.E[k].w \in Nat /\ (~S.wtd => S.E[k].w = 1)

---------------------------------------------------------------------------
(* Metadata helpers *)
MSet(md, f, v) == Upd(md, f, v)
MDel(md, f)    == Without(md, {f})

---------------------------------------------------------------------------
(* Single-element mutators.  Each returns a set of states ({} = invalid).  *)

WithNodes(S, ns) ==          \* nodes first seen get empty metadata
  [S EXCEPT !.nodes = @ \cup ns,
            !.nmd = [n \in S.nodes \cup ns |-> IF n \in S.nodes THEN S.nmd[n] ELSE NoMeta]]

AddNode(S, n, hasmd, md) ==
  IF n \notin S.nodes
  THEN {[WithNodes(S, {n}) EXCEPT !.nmd[n] = IF hasmd THEN md ELSE NoMeta]}
  ELSE IF ~hasmd THEN {S}
       ELSE IF S.nmd[n] = NoMeta THEN {[S EXCEPT !.nmd[n] = md]}
       ELSE {S, [S EXCEPT !.nmd[n] = md]}          \* open corner: metadata on a node that has some

\* weight argument 0 stands for "not given"; z = TRUE means the weight given IS the number zero
\* (falsy values are where `x or default` mistakes hide)
AddEdgeZ(S, k, w, z, hasmd, md) ==
  IF ~WFKey(k) \/ (~S.wtd /\ (z \/ w \notin {0, 1})) THEN {}
  ELSE LET W  == IF z THEN 0 ELSE IF w = 0 THEN 1 ELSE w
           S1 == WithNodes(S, KN(k))
           given == IF hasmd THEN md ELSE NoMeta
       IN IF k \notin Keys(S)
          THEN {[S1 EXCEPT !.E = Upd(S.E, k, [w |-> IF S.wtd THEN W ELSE 1, md |-> given])]}
          ELSE LET nw == IF S.wtd THEN S.E[k].w + W ELSE S.E[k].w
                   mds == IF hasmd THEN {md} ELSE {NoMeta, S.E[k].md}   \* open corner: re-insert without metadata
               IN {[S1 EXCEPT !.E[k] = [w |-> nw, md |-> m]] : m \in mds}

AddEdge(S, k, w, hasmd, md) == AddEdgeZ(S, k, w, FALSE, hasmd, md)
IsZero(r) == "zero" \in DOMAIN r /\ r.zero

RemoveEdge(S, k) ==
  IF k \notin Keys(S) THEN {} ELSE {[S EXCEPT !.E = Without(S.E, {k})]}

Incident(S, n, f) == {k \in EdgesF(S, f) : n \in KN(k)}

\* remove a node, dropping its hyperedges
RemoveNodeDrop(S, n) ==
  IF n \notin S.nodes THEN {}
  ELSE {[S EXCEPT !.nodes = @ \ {n}, !.nmd = Without(S.nmd, {n}),
                  !.E = Without(S.E, Incident(S, n, <<"none", 0>>))]}

\* remove a node, shrinking its hyperedges.  A shrunk key that already exists
\* is merged: weights add up (weighted), metadata is that of either (open corner).
\* A key that would become empty / ill-formed is dropped (callers avoid it: DESIGN 5).
RECURSIVE ShrinkAll(_, _, _)
ShrinkAll(Ss, ks, n) ==
  IF ks = {} THEN Ss
  ELSE LET k  == CHOOSE c \in ks : TRUE
           k2 == Drop(k, n)
           One(S) ==
             LET rec == S.E[k]
                 E1  == Without(S.E, {k})
             IN IF ~WFKey(k2) THEN {[S EXCEPT !.E = E1]}
                ELSE IF k2 \notin DOMAIN E1
                     THEN {[S EXCEPT !.E = Upd(E1, k2, rec)]}
                     ELSE {[S EXCEPT !.E = Upd(E1, k2,
                               [w |-> IF S.wtd THEN E1[k2].w + rec.w ELSE E1[k2].w, md |-> m])]
                           : m \in {rec.md, E1[k2].md}}
       IN ShrinkAll(UNION {One(S) : S \in Ss}, ks \ {k}, n)

RemoveNodeKeep(S, n) ==
  IF n \notin S.nodes THEN {}
  ELSE {[T EXCEPT !.nodes = @ \ {n}, !.nmd = Without(T.nmd, {n})]
          : T \in ShrinkAll({S}, Incident(S, n, <<"none", 0>>), n)}

RemoveNode(S, n, keep) == IF keep THEN RemoveNodeKeep(S, n) ELSE RemoveNodeDrop(S, n)

SetWeight(S, k, w) ==
  IF k \notin Keys(S) \/ (~S.wtd /\ w # 1) THEN {} ELSE {[S EXCEPT !.E[k].w = w]}

SetNodeMd(S, n, md) == IF n \notin S.nodes THEN {} ELSE {[S EXCEPT !.nmd[n] = md]}
SetEdgeMd(S, k, md) == IF k \notin Keys(S) THEN {} ELSE {[S EXCEPT !.E[k].md = md]}
SetHMd(S, md)       == {[S EXCEPT !.hmd = md]}
SetAttrNode(S, n, f, v) == IF n \notin S.nodes THEN {} ELSE {[S EXCEPT !.nmd[n] = MSet(@, f, v)]}
SetAttrEdge(S, k, f, v) == IF k \notin Keys(S) THEN {} ELSE {[S EXCEPT !.E[k].md = MSet(@, f, v)]}
SetAttrH(S, f, v)       == {[S EXCEPT !.hmd = MSet(@, f, v)]}
DelAttrNode(S, n, f) == IF n \notin S.nodes \/ f \notin DOMAIN S.nmd[n] THEN {}
                        ELSE {[S EXCEPT !.nmd[n] = MDel(@, f)]}
DelAttrEdge(S, k, f) == IF k \notin Keys(S) \/ f \notin DOMAIN S.E[k].md THEN {}
                        ELSE {[S EXCEPT !.E[k].md = MDel(@, f)]}
\* clear() empties the container; whether the hypergraph-level metadata goes too is open
Clear(S) == {[S EXCEPT !.nodes = {}, !.E = <<>>, !.nmd = <<>>, !.hmd = h] : h \in {NoMeta, S.hmd}}

---------------------------------------------------------------------------
(* Batched mutators = fold of the single ones; invalid as a whole as soon  *)
(* as one element is invalid (atomicity: a rejected call changes nothing). *)
RECURSIVE Fold(_, _, _, _)
Fold(One(_, _), Ss, items, i) ==
  IF i > Len(items) \/ Ss = {} THEN Ss
  ELSE Fold(One, UNION {One(S, items[i]) : S \in Ss}, items, i + 1)

AddNodesOne(S, it)    == AddNode(S, it.n, it.hasmd, it.md)
AddEdgesOne(S, it)    == IF it.bad # "" THEN {} ELSE AddEdgeZ(S, it.k, it.w, IsZero(it), it.hasmd, it.md)
RemoveEdgesOne(S, k)  == RemoveEdge(S, k)
RemoveNodesDrop(S, n) == RemoveNode(S, n, FALSE)
RemoveNodesKeep(S, n) == RemoveNode(S, n, TRUE)

Distinct(sq) == \A i, j \in DOMAIN sq : i # j => sq[i] # sq[j]

Succ(S, o) ==
  CASE o.op = "add_node"      -> AddNode(S, o.n, o.hasmd, o.md)
    [] o.op = "add_nodes"     -> Fold(AddNodesOne, {S}, o.items, 1)
    [] o.op = "add_edge"      -> IF o.bad # "" THEN {} ELSE AddEdgeZ(S, o.k, o.w, IsZero(o), o.hasmd, o.md)
    [] o.op = "add_edges"     -> Fold(AddEdgesOne, {S}, o.items, 1)
    [] o.op = "remove_edge"   -> RemoveEdge(S, o.k)
    [] o.op = "remove_edges"  -> Fold(RemoveEdgesOne, {S}, o.ks, 1)
    [] o.op = "remove_node"   -> RemoveNode(S, o.n, o.keep)
    [] o.op = "remove_nodes"  -> IF o.keep THEN Fold(RemoveNodesKeep, {S}, o.ns, 1)
                                           ELSE Fold(RemoveNodesDrop, {S}, o.ns, 1)
    [] o.op = "set_weight"    -> SetWeight(S, o.k, o.w)
    [] o.op = "set_node_md"   -> SetNodeMd(S, o.n, o.md)
    [] o.op = "set_edge_md"   -> SetEdgeMd(S, o.k, o.md)
    [] o.op = "set_h_md"      -> SetHMd(S, o.md)
    [] o.op = "set_attr_node" -> SetAttrNode(S, o.n, o.f, o.v)
    [] o.op = "set_attr_edge" -> SetAttrEdge(S, o.k, o.f, o.v)
    [] o.op = "set_attr_h"    -> SetAttrH(S, o.f, o.v)
    [] o.op = "del_attr_node" -> DelAttrNode(S, o.n, o.f)
    [] o.op = "del_attr_edge" -> DelAttrEdge(S, o.k, o.f)
    [] o.op = "clear"         -> Clear(S)
    [] OTHER                  -> {S}              \* pure calls (queries, derivations, hash, save)

Valid(S, o) == Succ(S, o) # {}

---------------------------------------------------------------------------
(* Queries *)
NoF == <<"none", 0>>
SourceEdges(S, n, f) == {k \in EdgesF(S, f) : n \in k.s}       \* dir: n is a source ("hg": member)
TargetEdges(S, n, f) == {k \in EdgesF(S, f) : n \in k.t}
Neigh(S, n, f)  == (UNION {KN(k) : k \in Incident(S, n, f)}) \ {n}
\* a directed key is listed once per role; roles are disjoint, so the bag is a set
Degree(S, n, f) == Cardinality(Incident(S, n, f))
InDeg(S, n, f)  == Cardinality(SourceEdges(S, n, f))           \* hypergraphx calls this in_degree
OutDeg(S, n, f) == Cardinality(TargetEdges(S, n, f))
SizesBag(S)  == [z \in {KSize(k) : k \in Keys(S)} |-> Cardinality({k \in Keys(S) : KSize(k) = z})]
MaxSize(S)   == CHOOSE z \in {KSize(k) : k \in Keys(S)} : \A y \in {KSize(k) : k \in Keys(S)} : y <= z
IsUniform(S) == Cardinality({KSize(k) : k \in Keys(S)}) <= 1
DegDist(S, f) == LET ds == {Degree(S, n, f) : n \in S.nodes}
                 IN [d \in ds |-> Cardinality({n \in S.nodes : Degree(S, n, f) = d})]
\* temporal
Window(S, a, b) == {k \in Keys(S) : a <= k.x /\ k.x < b}
TimesOf(S, ss)  == {k.x : k \in {c \in Keys(S) : c.s = ss}}
Times(S)        == {k.x : k \in Keys(S)}
\* multiplex
LayersUsed(S)   == {k.x : k \in Keys(S)}

RECURSIVE SumSet(_, _)
SumSet(F(_), D) == IF D = {} THEN 0 ELSE LET d == CHOOSE c \in D : TRUE IN F(d) + SumSet(F, D \ {d})

=============================================================================
