---------------------------- MODULE Trace_C18 ----------------------------
(***************************************************************************)
(* C18, contagion part: trace validator for simplicial_contagion.          *)
(*                                                                         *)
(* One trace per call.  Event 1 ("run") carries the input (abstract        *)
(* hypergraph, initial infected set, horizon T, the three rates abstracted  *)
(* to "0" | "mid" | "1") and the returned vector as infected COUNTS         *)
(* (fraction x N, integral or the harness says so).  When the add-only hook *)
(* of hypergraphx/dynamics/contagion.py is active, one "sweep" event per    *)
(* executed sweep follows with the infected set written by that sweep.      *)
(*                                                                         *)
(* The validator keeps the model's state (I, t) of Contagion.tla.  A sweep  *)
(* event is judged as ONE Sweep step from the previous infected set:        *)
(* the code's randomness is the action's nondeterminism, the logged set     *)
(* must be one of the allowed successors (exactly the successor in the      *)
(* deterministic regimes).  After every event the state is resynchronised   *)
(* to the logged set.  Never disabled; one RJ line per rejected event.      *)
(*                                                                         *)
(* Clauses whose name starts with "model_" bind the code to detail of the   *)
(* model the statement does not promise (the may-relation at intermediate   *)
(* rates, hook bookkeeping): they produce MODEL-DRIFT, not a VIOLATION.     *)
(***************************************************************************)
EXTENDS Dec, Contagion, Json, IOUtils
VARIABLES ti, li, ctx, nbad, nev
tvars == <<ti, li, ctx, nbad, nev, I, t>>

Traces == JsonDeserialize(IOEnv.TRACE_FILE).traces
NoCtx == [S |-> Empty(FALSE, TypeName), r |-> [beta |-> "0", betaD |-> "0", mu |-> "0"], T |-> 0, out |-> <<>>]

NonDecreasing(sq) == \A x \in 1..(Len(sq) - 1) : sq[x] <= sq[x + 1]
NonIncreasing(sq) == \A x \in 1..(Len(sq) - 1) : sq[x] >= sq[x + 1]

RunClauses(ev) ==
  LET S == DecState(ev.st)  I0 == Rng(ev.I0)  r == ev.r  N == Cardinality(S.nodes) IN
  {<<"input_in_scope", I0 \subseteq S.nodes /\ ev.T >= 1>>,
   <<"model_one_entry_per_time", Len(ev.out) = ev.T>>,
   <<"values_are_node_fractions", ev.integral>>,
   <<"fractions_in_unit_interval", \A x \in DOMAIN ev.out : 0 <= ev.out[x] /\ ev.out[x] <= N>>,
   <<"starts_at_initial_fraction", Len(ev.out) >= 1 => ev.out[1] = Cardinality(I0)>>,
   <<"never_decreasing_without_recovery", r.mu = "0" => NonDecreasing(ev.out)>>,
   <<"never_increasing_without_infection", (r.beta = "0" /\ r.betaD = "0") => NonIncreasing(ev.out)>>,
   <<"deterministic_regime_trajectory",
       (Deterministic(r) /\ ev.integral /\ Len(ev.out) >= 1) => ev.out = DetTrajectory(S, I0, r, Len(ev.out))>>,
   <<"model_counts_reachable", (ev.feas /\ ev.integral) => CountsFeasible(S, I0, r, ev.out)>>}

SweepClauses(ev) ==
  LET J == Rng(ev.I) IN
  {<<"deterministic_regime_sweep", Deterministic(ctx.r) => J = DetSweep(ctx.S, I, ctx.r)>>,
   <<"model_sweep_reads_old_state", SweepOK(ctx.S, I, ctx.r, J)>>,
   <<"model_sweep_index", ev.t = t>>,
   <<"model_sweep_enabled", t < ctx.T /\ I # {}>>,
   <<"model_sweep_matches_returned_count",
       (ev.t + 1 \in DOMAIN ctx.out) => ctx.out[ev.t + 1] = Cardinality(J)>>}

TInit == ti = 1 /\ li = 1 /\ ctx = NoCtx /\ nbad = 0 /\ nev = 0 /\ I = {} /\ t = 0

TNext ==
  /\ ti <= Len(Traces)
  /\ IF li > Len(Traces[ti])
     THEN /\ ti' = ti + 1 /\ li' = 1 /\ ctx' = NoCtx /\ I' = {} /\ t' = 0 /\ UNCHANGED <<nbad, nev>>
          /\ (ti < Len(Traces) \/ PrintT("DONE " \o ToString(nev) \o " " \o ToString(nbad)))
     ELSE LET ev == Traces[ti][li]
              cl == IF ev.kind = "run" THEN RunClauses(ev) ELSE SweepClauses(ev)
              failed == {c[1] : c \in {c \in cl : ~c[2]}}
          IN /\ IF ev.kind = "run"
                THEN /\ ctx' = [S |-> DecState(ev.st), r |-> ev.r, T |-> ev.T, out |-> ev.out]
                     /\ I' = Rng(ev.I0) /\ t' = 1               \* CInit(I0)
                ELSE /\ I' = Rng(ev.I) /\ t' = ev.t + 1         \* continue from the LOGGED state
                     /\ UNCHANGED ctx
             /\ li' = li + 1 /\ ti' = ti /\ nev' = nev + 1
             /\ nbad' = IF failed = {} THEN nbad ELSE nbad + 1
             /\ (failed = {} \/ PrintT("RJ " \o ToString(<<ti, li, failed>>)))
=============================================================================
