---------------------------- MODULE Trace_X09 ----------------------------
(* X09: values returned by measures/temporal/temporal_topological_correlation.py  *)
(* on real TemporalHypergraph objects, against EventDist.tla.                      *)
(* A case = the abstract state of the object (through its public API) + what the   *)
(* calls returned (node ids of the specification; floats as exact fractions).      *)
EXTENDS Dec, EventDist
VARIABLES ci, nbad

Sq(n) == n * n
\* a logged Counter: sequence of <<distance, count>> with distinct distances; an absent distance counts 0
CntOf(sq, d) == LET hits == {p \in Rng(sq) : p[1] = d} IN IF hits = {} THEN 0 ELSE (CHOOSE p \in hits : TRUE)[2]
CounterIs(sq, S, D, z, cross, dt) ==
  /\ Cardinality({p[1] : p \in Rng(sq)}) = Len(sq)
  /\ \A p \in Rng(sq) : p[2] = CondCount(S, D, z, cross, dt, p[1])
  /\ \A d \in EDDists(S) : CntOf(sq, d) = CondCount(S, D, z, cross, dt, d)

(* X09-a *)
NodeClauses(S, r) ==
  LET GN == EDGraphNodes(S)  conn == EDGraphConnected(S) IN
  {<<"nodes_shortest_path", (GN # {} /\ conn) =>
        /\ ~r.raised
        /\ Len(r.ents) = Sq(Cardinality(GN))
        /\ {<<p[1], p[2], p[3]>> : p \in Rng(r.ents)} = {<<a, b, NodeDist(S, a, b)>> : a \in GN, b \in GN}>>,
   <<"nodes_shortest_path_rejects_disconnected", (GN # {} /\ ~conn) => r.raised>>}

(* X09-b / X09-c *)
EntriesAre(r, S, D) ==
  /\ ~r.raised
  /\ r.n = Sq(Cardinality(EDEventSets(S)))
  /\ Len(r.ents) = r.n
  /\ {<<Rng(p[1]), Rng(p[2]), p[3]>> : p \in Rng(r.ents)} = {<<q[1], q[2], D[q]>> : q \in DOMAIN D}
EdgeClauses(S, D, c) ==
  {<<"edges_shortest_path", EDDefined(S) => EntriesAre(c.ed, S, D)>>,
   <<"edges_shortest_path_symmetric", ~c.ed.raised =>
        \A p, q \in Rng(c.ed.ents) : (p[1] = q[2] /\ p[2] = q[1]) => p[3] = q[3]>>,
   <<"edges_shortest_path_rejects_disconnected", (EDGraphNodes(S) # {} /\ ~EDDefined(S)) => c.ed.raised>>}
  \cup (IF Has(c, "edd") THEN
  {<<"edges_shortest_path_default_aggregates", EDDefined(S) => EntriesAre(c.edd, S, D)>>,
   <<"mean_distance_events_default_distance", EDDefined(S) => ~c.edd.pcraised>>} ELSE {})

(* X09-d *)
PairClauses(S, D, pc) ==
  LET Good(r) == ~r.raised /\ r.intok /\ CounterIs(r.cnt, S, D, r.z, r.cross, -1)
      n(r)    == Cardinality(EDEv(S, r.z))
      m(r)    == Cardinality(EDEvOther(S, r.z))
      Tot(r)  == LET V(i) == r.cnt[i][2] IN SumSet(V, DOMAIN r.cnt)
  IN
  {<<"mean_distance_events_same_order", EDDefined(S) => \A r \in Rng(pc) : ~r.cross => Good(r)>>,
   <<"mean_distance_events_cross_order", EDDefined(S) => \A r \in Rng(pc) : r.cross => Good(r)>>,
   <<"mean_distance_events_total", EDDefined(S) => \A r \in Rng(pc) : (~r.raised /\ r.intok) =>
         Tot(r) = IF r.cross THEN n(r) * m(r) ELSE (n(r) * (n(r) - 1)) \div 2>>}

(* X09-e *)
DfClauses(S, df) ==
  {<<"to_df", /\ ~df.raised
              /\ Len(df.rows) = Cardinality(Keys(S))
              /\ {<<p[1], Rng(p[2]), p[3]>> : p \in Rng(df.rows)} = {<<k.x, k.s, KSize(k)>> : k \in Keys(S)}>>}

(* X09-f: demanded where every mean is over at least one pair and the overall mean is positive *)
CondClauses(S, D, cq) ==
  LET Tt(r, dt) == EDTotal(S, D, r.z, ~r.same, dt)
      Mo(r, dt) == EDMoment(S, D, r.z, ~r.same, dt)
      Dem(r)    == /\ EDDefined(S)
                   /\ Mo(r, -1) > 0
                   /\ \A dt \in Rng(r.dts) : Tt(r, dt) > 0
      Distr(r)  == /\ ~r.raised
                   /\ Len(r.dist) = Len(r.dts)
                   /\ {p[1] : p \in Rng(r.dist)} = Rng(r.dts)
                   /\ \A p \in Rng(r.dist) : CounterIs(p[2], S, D, r.z, ~r.same, p[1])
      Avgs(r)   == ~r.raised =>
                   /\ r.avgok
                   /\ RatEq(r.avg, <<Mo(r, -1), Tt(r, -1)>>)
                   /\ {p[1] : p \in Rng(r.ravg)} = Rng(r.dts)
                   /\ \A p \in Rng(r.ravg) : RatEq(p[2], <<Mo(r, p[1]) * Tt(r, -1), Tt(r, p[1]) * Mo(r, -1)>>)
  IN
  {<<"cond_distance_same_order_distribution", \A r \in Rng(cq) : (r.same /\ Dem(r)) => Distr(r)>>,
   <<"cond_distance_diff_order_distribution", \A r \in Rng(cq) : (~r.same /\ Dem(r)) => Distr(r)>>,
   <<"cond_distance_same_order_averages", \A r \in Rng(cq) : (r.same /\ Dem(r)) => Avgs(r)>>,
   <<"cond_distance_diff_order_averages", \A r \in Rng(cq) : (~r.same /\ Dem(r)) => Avgs(r)>>}

X09Clauses(c) ==
  LET S == DecState(c.st)
      D == EdgeDistTable(S)
  IN (IF Has(c, "nd") THEN NodeClauses(S, c.nd) ELSE {})
     \cup (IF Has(c, "ed") THEN EdgeClauses(S, D, c) ELSE {})
     \cup (IF Has(c, "pc") THEN PairClauses(S, D, c.pc) ELSE {})
     \cup (IF Has(c, "df") THEN DfClauses(S, c.df) ELSE {})
     \cup (IF Has(c, "cond") THEN CondClauses(S, D, c.cond) ELSE {})
R == INSTANCE CaseRunner WITH Clauses <- X09Clauses
TInit == R!CInit
TNext == R!CNext
=============================================================================
