---------------------------- MODULE OracleRunner ----------------------------
(* CaseRunner plus oracle mode (DESIGN.md 1.1 / A.4): besides the named       *)
(* clauses <<name, holds>> that TLC decides for every case (one RJ line per   *)
(* failing case, DONE at the end), the instantiating module supplies          *)
(* Values(case): exact discrete / rational values of the specification's      *)
(* operators on that case, written once, as a JSON array with one entry per   *)
(* case, to IOEnv.OUT_FILE.  Floats never enter TLC: the harness compares the *)
(* implementation's floats with these exact values.                           *)
EXTENDS Naturals, Sequences, FiniteSets, TLC, Json, IOUtils
CONSTANT Clauses(_), Values(_)
VARIABLES ci, nbad

Cases == JsonDeserialize(IOEnv.TRACE_FILE).cases
OInit == ci = 1 /\ nbad = 0
ONext == /\ ci <= Len(Cases)
         /\ LET failed == {c[1] : c \in {c \in Clauses(Cases[ci]) : ~c[2]}}
                nb == IF failed = {} THEN nbad ELSE nbad + 1
            IN /\ ci' = ci + 1
               /\ nbad' = nb
               /\ (failed = {} \/ PrintT("RJ " \o ToString(<<ci, 1, failed>>)))
               /\ (ci < Len(Cases) \/
                     /\ JsonSerialize(IOEnv.OUT_FILE, [x \in 1..Len(Cases) |-> Values(Cases[x])])
                     /\ PrintT("DONE " \o ToString(ci) \o " " \o ToString(nb)))
=============================================================================
