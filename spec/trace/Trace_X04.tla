---------------------------- MODULE Trace_X04 ----------------------------
(***************************************************************************)
(* X04: validator (black box: arguments -> result through the public API). *)
(* One case = one call.                                                    *)
(*   fn = "cmv"   configuration_model(h, n_steps, label="vertex", n_clash, *)
(*                detailed[, size | order])            Kind = "hg"         *)
(*   fn = "pwl"   rnd_pwl(xmin, xmax, g, size)         Kind = "hg"         *)
(*   fn = "hoad"  HOADmodel(N, activities, time)       Kind = "temp"       *)
(* Clause names starting with "model_" bind the code to model detail (the  *)
(* epoch mechanics, the step count that the function prints, inverse-CDF   *)
(* monotonicity): MODEL-DRIFT, never a violation.  The clause              *)
(* "diag_unexplained_by_D1" is not a verdict: it fails when some property  *)
(* clause of a "cmv" case fails AND the observation is not what Deviation  *)
(* D1 of ChainsV.tla (hyperedge ids read as multiplicities) produces; the  *)
(* driver uses it to give such rejections their own signature.             *)
(***************************************************************************)
EXTENDS Dec, ChainsV
VARIABLES ci, nbad

Once(sq) == Len(sq) = Cardinality(Rng(sq))
Listing(j) ==
  {<<"hyperedge_lists_distinct_nodes", \A e \in Rng(j.edges) : Once(e.k.s)>>,
   <<"hyperedges_listed_once", Len(j.edges) = Cardinality({DecKey(e.k) : e \in Rng(j.edges)})>>,
   <<"projection_complete", j.err = "">>}
Failing(cl) == {x \in cl : ~x[2]}

---------------------------------------------------------------------------
RECURSIVE StepsFrom(_, _, _)
StepsFrom(S, det, k) == IF k = 0 THEN S ELSE StepsFrom(UNION {VAcceptSucc(M, det) : M \in S}, det, k - 1)

CMVClauses(c) ==
  LET P == DecState(c.inp)
      Q == DecState(c.out)
      a == c.args
      prop == {<<"returns_a_hypergraph", c.ok>>,
               <<"argument_untouched", DecState(c.after) = P>>}
              \cup (IF c.ok THEN CMPost(P, Q, [detailed |-> a.detailed, size |-> a.size]) \cup Listing(c.out) ELSE {})
              \cup (IF c.deep THEN {x \in CMVChain(P, Q, a, c.ok) : x[1] # "model_one_epoch_of_disjoint_steps_when_n_clash_1"}
                    ELSE {})
      model == (IF c.deep THEN {x \in CMVChain(P, Q, a, c.ok) : x[1] = "model_one_epoch_of_disjoint_steps_when_n_clash_1"}
                ELSE {})
               \cup (IF c.ok /\ c.steps >= 0
                     THEN {<<"model_reported_steps_at_least_n_steps_and_one", c.steps >= a.n_steps /\ c.steps >= 1>>,
                           <<"model_exactly_n_steps_when_n_clash_0",
                               a.n_clash = 0 => c.steps = (IF a.n_steps = 0 THEN 1 ELSE a.n_steps)>>}
                          \cup (IF c.deep /\ c.steps <= 12
                                THEN {<<"model_reachable_in_the_reported_number_of_steps",
                                         HSets(Q) \in {VEmit(M, Untouched(HSets(P), a.size))
                                                        : M \in StepsFrom({BOf(Selected(HSets(P), a.size))}, a.detailed, c.steps)}>>}
                                ELSE {})
                     ELSE {})
      listing == [i \in DOMAIN c.listing |-> Rng(c.listing[i])]
  IN prop \cup model \cup
     {<<"diag_unexplained_by_D1", Failing(prop) = {} \/ (c.diag /\ ExplainedByIds(P, Q, a, c.ok, listing))>>}

---------------------------------------------------------------------------
HOADClauses(c) ==
  {<<"call_succeeds", c.ok>>} \cup
  (IF ~c.ok THEN {} ELSE
   LET Q == DecState(c.out) IN
   Listing(c.out) \cup HOADPost(c.n, c.acts, c.time, Q)
   \cup (IF c.driven THEN HOADDriven(c.n, c.acts, c.time, c.draws, Q) ELSE {}))

---------------------------------------------------------------------------
(* rnd_pwl: the values are real; the harness reports, per value, -1 / 0 / 1 (below xmin, within, above   *)
(* xmax, up to rounding) and the ranks of the variates and of the values (when it supplied the variates) *)
PWLClauses(c) ==
  {<<"call_succeeds", c.ok>>} \cup
  (IF ~c.ok THEN {} ELSE
   {<<"returns_size_values", c.len = c.size /\ Len(c.codes) = c.size>>,
    <<"values_within_xmin_xmax", \A i \in DOMAIN c.codes : c.codes[i] = 0>>,
    <<"model_nondecreasing_in_the_uniform_variate",
        c.driven => (Len(c.rr) = Len(c.xr) /\ \A i, j \in DOMAIN c.rr : c.rr[i] <= c.rr[j] => c.xr[i] <= c.xr[j])>>,
    <<"model_endpoints_of_the_variate_map_to_the_bounds",
        c.driven => \A i \in DOMAIN c.rr : (c.rzero[i] => c.atmin[i])>>})

X04Clauses(c) ==
  CASE c.fn = "cmv"  -> CMVClauses(c)
    [] c.fn = "hoad" -> HOADClauses(c)
    [] c.fn = "pwl"  -> PWLClauses(c)
    [] OTHER -> {<<"unknown_function", FALSE>>}

R == INSTANCE CaseRunner WITH Clauses <- X04Clauses
TInit == R!CInit
TNext == R!CNext
=============================================================================
