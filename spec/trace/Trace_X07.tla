---------------------------- MODULE Trace_X07 ----------------------------
(* X07: what hypergraphx.communities.hyperlink_comm, communities.core_periphery *)
(* and utils.community return, against Communities.tla.  A case = the abstract  *)
(* state of a real object (or integer matrices) + what the calls returned.      *)
(* Floats never enter: heights, scores and quotients arrive as <<num, den>> or   *)
(* as integers (millionths); the driver checks that they reproduce the floats.   *)
EXTENDS Dec, Communities
VARIABLES ci, nbad

L == "average"                       \* the method= the code passes to scipy.cluster.hierarchy.linkage
Q2(x) == <<x[1], x[2]>>
Rows(Z) == [r \in DOMAIN Z |-> [a |-> Z[r].a, b |-> Z[r].b, h |-> Q2(Z[r].h), n |-> Z[r].n]]

(* X07-a .. X07-e *)
HLClauses(S, c) ==
  LET leaf   == [i \in DOMAIN c.leaf |-> Rng(c.leaf[i])]
      E      == Rng(leaf)
      m      == Len(leaf)
      Z      == Rows(c.Z)
      cl0    == HLLeafClusters(leaf)
      P0     == {{e} : e \in E}
      shape  == m >= 2 /\ Cardinality(E) = m /\ Len(Z) = m - 1
      idsok  == shape /\ HLRunClause("ids", L, cl0, Z, 1, m)
      active == UNION E
      Want(lab, n) == {lab[i] : i \in {j \in DOMAIN lab : n \in leaf[j]}}
      OvOK(lab, ov) ==                 \* ov = sequence of <<node, labels>>
         /\ \A n \in active : \E p \in Rng(ov) : p[1] = n /\ Rng(p[2]) = Want(lab, n)
         /\ \A i, j \in DOMAIN ov : i # j => ov[i][1] # ov[j][1]
      good(q) == HLLabelsOK(leaf, q.lab)
      Cuts   == {q \in Rng(c.cuts) : good(q)}
      B(q)   == HLBlocks(leaf, q.lab)
  IN
  {<<"hyperlink_communities_returns_a_dendrogram", c.ran>>,
   <<"leaves_are_the_hyperedges_of_a_largest_component",
       c.ran => /\ Cardinality(E) = m
                /\ \E sub \in LargestSubs(S, NoF) : HLEdges(sub) = E>>,
   <<"dendrogram_has_one_row_per_merge", c.ran => shape>>,
   <<"dendrogram_joins_live_clusters_down_to_one", shape => idsok>>,
   <<"dendrogram_merges_a_minimum_distance_pair", idsok => HLRunClause("min", L, cl0, Z, 1, m)>>,
   <<"dendrogram_height_is_the_average_jaccard_distance", idsok => HLRunClause("height", L, cl0, Z, 1, m)>>,
   <<"dendrogram_size_column", idsok => HLRunClause("size", L, cl0, Z, 1, m)>>,
   <<"heights_positive_and_not_decreasing", shape =>
        /\ \A r \in DOMAIN Z : QLt(QZero, Z[r].h)
        /\ \A r \in DOMAIN Z : r > 1 => QLe(Z[r - 1].h, Z[r].h)>>,
   <<"root_height_below_one", shape => QLt(Z[Len(Z)].h, QOne)>>,
   <<"cut_labels_every_hyperedge_with_contiguous_labels", \A q \in Rng(c.cuts) : q.ok /\ good(q)>>,
   <<"cut_joins_exactly_the_rows_up_to_the_height", idsok => \A q \in Cuts : B(q) = HLCutOfZ(cl0, Z, 1, m, Q2(q.h))>>,
   <<"cut_partition_is_reachable_by_the_merge_machine", shape => \A q \in Cuts : HLReachAt(L, P0, Q2(q.h), B(q))>>,
   <<"cut_partition_unique_without_ties", shape => \A q \in Cuts :
        HLNoTieUpTo(L, P0, Q2(q.h)) => B(q) = HLCutDet(L, P0, Q2(q.h))>>,
   <<"cuts_at_increasing_heights_are_nested", \A q1, q2 \in Cuts : QLe(Q2(q1.h), Q2(q2.h)) => HLRefines(B(q1), B(q2))>>,
   <<"cut_at_zero_leaves_every_hyperedge_alone", \A q \in Cuts : q.h[1] = 0 => B(q) = P0>>,
   <<"cut_at_one_or_above_is_one_community", \A q \in Cuts : QLe(QOne, Q2(q.h)) => B(q) = {E}>>,
   <<"number_of_communities", \A q \in Cuts : q.num = Cardinality(B(q))>>,
   <<"overlapping_communities", \A q \in Cuts : q.ovok /\ OvOK(q.lab, q.ov) /\ {p[1] : p \in Rng(q.ov)} = active>>,
   \* candidate defect X07-D2: the hypergraph itself, when it is not connected
   <<"overlapping_on_disconnected_input", \A q \in Cuts : Has(q, "full") => (q.fullok /\ OvOK(q.lab, q.full))>>}

(* X07-a: defaults and the distance files (candidate defect X07-D1) *)
IOClauses(c) ==
  {<<"hyperlink_communities_runs_with_default_arguments", c.io.defaults>>,
   <<"saved_distances_are_read_back", c.io.roundtrip>>}

(* X07-f *)
CPClauses(S, c) ==
  LET act == UNION HLEdges(S)
      K(r) == Rng(r.keys) IN
  {<<"cp_returns_finite_scores", \A r \in Rng(c.runs) : r.ok /\ r.finite>>,
   <<"cp_scores_exactly_once_the_nodes_in_hyperedges", \A r \in Rng(c.runs) : r.ok =>
        /\ act \subseteq K(r) /\ K(r) \subseteq S.nodes
        /\ Len(r.keys) = Cardinality(K(r)) /\ {p[1] : p \in Rng(r.micro)} = K(r)>>,
   \* candidate defect X07-D3: "coreness scores for each node"
   <<"cp_scores_every_node", \A r \in Rng(c.runs) : r.ok => K(r) = S.nodes>>,
   <<"cp_scores_in_unit_interval", \A r \in Rng(c.runs) : r.ok => \A p \in Rng(r.micro) :
        0 <= p[2] /\ p[2] <= 1000000 /\ (p[1] \in act => 0 < p[2])>>,
   <<"cp_largest_score_is_one", \A r \in Rng(c.runs) : r.ok => \E p \in Rng(r.micro) : p[2] = 1000000>>,
   <<"cp_equal_seeds_equal_scores", \A r \in Rng(c.runs) : r.ok => r.same>>}

(* X07-g *)
TFClauses(c) ==
  {<<"transition_function_value", c.ok /\ Len(c.vals) = c.N /\
        \A i \in 1..c.N : c.vals[i][2] > 0 /\ QEq(Q2(c.vals[i]), TFValue(i, c.N, Q2(c.a), Q2(c.b)))>>,
   <<"transition_function_profile", c.ok =>
        /\ \A i \in DOMAIN c.vals : QLe(QZero, Q2(c.vals[i])) /\ QLe(Q2(c.vals[i]), QOne)
        /\ \A i \in DOMAIN c.vals : i > 1 => QLe(Q2(c.vals[i - 1]), Q2(c.vals[i]))
        /\ Len(c.vals) >= 1 => QEq(Q2(c.vals[Len(c.vals)]), QOne)>>}

(* X07-h *)
NormClauses(c) ==
  LET u == c.u  out == c.out
      shape == c.ok /\ Len(out) = MRows(u) /\ \A i \in DOMAIN out : Len(out[i]) = MCols(u) IN
  {<<"normalize_array_shape", shape>>,
   <<"normalize_array_values", shape => \A i \in 1..MRows(u) : \A j \in 1..MCols(u) :
        out[i][j][2] > 0 /\ NormCellOK(u, c.axis, out, i, j) /\ QEq(Q2(out[i][j]), NormOf(u, c.axis)[i][j])>>,
   <<"normalize_array_zero_lines_stay_zero", shape => \A i \in 1..MRows(u) : \A j \in 1..MCols(u) :
        (LineSum(u, c.axis, i, j) = 0 /\ u[i][j] = 0) => out[i][j][1] = 0>>,
   <<"normalize_array_leaves_input_unchanged", c.unchanged>>}

(* X07-i *)
PermClauses(c) ==
  LET K  == c.K
      M  == PMOverlap(c.up, c.ur, K)
      ok == c.ok /\ c.binary /\ Len(c.P) = K /\ \A r \in DOMAIN c.P : Len(c.P[r]) = K
      PP == {p \in (1..K) \X (1..K) : c.P[p[1]][p[2]] = 1}
      pm == ok /\ PMIsPermutation(PP, K) IN
  {<<"perm_is_a_square_zero_one_matrix", ok>>,
   <<"perm_has_one_entry_per_row_and_column", ok => pm>>,
   <<"perm_is_an_outcome_of_the_greedy_machine", pm => PMReach(M, K, {}, {}, PP)>>,
   <<"perm_lexicographically_largest_among_all_permutations", (pm /\ PMDistinctPositive(M, K) /\ PMNonNegative(M, K)) =>
        PMLexMax(M, K, PP)>>,
   <<"perm_total_at_least_half_of_the_best", (pm /\ PMNonNegative(M, K)) => 2 * PMTotal(M, PP) >= PMBest(M, K)>>,
   <<"perm_undoes_a_column_switch", (pm /\ PMHard(c.ur, K) /\ PMSwitched(c.ur, c.up, K)) => PMApply(c.up, PP, K) = c.ur>>}

X07Clauses(c) ==
  (IF Has(c, "leaf") THEN HLClauses(DecState(c.st), c) ELSE {})
  \cup (IF Has(c, "io") THEN IOClauses(c) ELSE {})
  \cup (IF Has(c, "runs") THEN CPClauses(DecState(c.st), c) ELSE {})
  \cup (IF Has(c, "vals") THEN TFClauses(c) ELSE {})
  \cup (IF Has(c, "out") THEN NormClauses(c) ELSE {})
  \cup (IF Has(c, "P") THEN PermClauses(c) ELSE {})
R == INSTANCE CaseRunner WITH Clauses <- X07Clauses
TInit == R!CInit
TNext == R!CNext
=============================================================================
