---------------------------- MODULE Oracle_C15 ----------------------------
(***************************************************************************)
(* C15, oracle mode (DESIGN.md Appendix A.4): TLC evaluates the            *)
(* definitions of HyMMSBM.tla on integer (u, w) and WRITES the exact       *)
(* values - integers and [num, den] rationals - with JsonSerialize.  The   *)
(* harness compares implementation floats with them (relative 1e-9) and    *)
(* cross-checks its own Python transcription of Lambda / kappa, which it   *)
(* needs for the real-valued likelihood of the fit() monitor.              *)
(* IN_FILE : {"cases": [{"N", "D", "u", "w", "edges": [[nodes]...]}, ...]} *)
(* OUT_FILE: [{"lam": [...], "kappa": [...], "count": [...], "deg": [...], *)
(*             "avg": [n, d]}, ...]   (kappa/count for d = 2..D, deg per   *)
(*             node for the sizes 2..D)                                    *)
(***************************************************************************)
EXTENDS HyMMSBM, Json, IOUtils
VARIABLE x
In == JsonDeserialize(IOEnv.IN_FILE).cases
RngO(s) == {s[i] : i \in DOMAIN s}
Eval(c) ==
  LET Lam == TLCEval(LamTable(c.u, c.w))  N == c.N  ds == 2..c.D IN
  [lam   |-> [j \in DOMAIN c.edges |-> Lam[RngO(c.edges[j])]],
   kappa |-> [k \in 1..(c.D - 1) |-> Kappa(N, k + 1)],
   count |-> [k \in 1..(c.D - 1) |-> ExpCountBF(Lam, N, k + 1)],
   deg   |-> [i \in 1..N |-> ExpDegBF(Lam, N, ds, i)],
   avg   |-> AvgDegBF(Lam, N, ds)]
ASSUME JsonSerialize(IOEnv.OUT_FILE, [i \in DOMAIN In |-> Eval(In[i])])
Init == x = 0
Next == UNCHANGED x
=============================================================================
