---------------------------- MODULE Oracle_C20 ----------------------------
(* C20: oracle for the centralities.  A case is an abstract hypergraph (Kind  *)
(* "hg") or temporal hypergraph (Kind "temp") logged through the public API,  *)
(* together with the KEYS of the dictionaries the centrality functions        *)
(* returned (the float values stay with the harness).  TLC                    *)
(*   decides  that every hyperedge / node received exactly one value;         *)
(*   emits    the exact rational s-betweenness / s-closeness of every          *)
(*            hyperedge in the specification's s-line graph, of every node in  *)
(*            its bipartite graph, the temporal averages, and the integer      *)
(*            structures (co-membership matrix, hyperedge list, uniformity,    *)
(*            connectivity) on which the harness evaluates the real-valued     *)
(*            claims (matrix exponential, eigen-equations).                    *)
EXTENDS Dec, Centrality
VARIABLES ci, nbad

KeySets(sq) == {Rng(k) : k \in Rng(sq)}
ExactlyOnce(sq, expected) == Len(sq) = Cardinality(expected) /\ KeySets(sq) = expected
NodesOnce(sq, expected)   == Len(sq) = Cardinality(expected) /\ Rng(sq) = expected

\* a function f : X -> rational as a set of <<x, <<num, den>>>> pairs (JSON: array of pairs)
Graph(f) == {<<x, f[x]>> : x \in DOMAIN f}

StaticClauses(c, H) ==
  (IF Has(c, "ekeys") THEN
     {<<"one_value_per_hyperedge", \A r \in Rng(c.ekeys) : ExactlyOnce(r.keys, H.edges)>>} ELSE {})
  \cup (IF Has(c, "nkeys") THEN
     {<<"one_value_per_node", \A r \in Rng(c.nkeys) : NodesOnce(r.keys, H.nodes)>>} ELSE {})

TempClauses(c, S) ==
  LET alive == UNION {EdgesAt(S, tm) : tm \in SnapTimes(S)}
      touched == UNION alive
  IN (IF Has(c, "ekeys") THEN
        {<<"one_value_per_hyperedge", \A r \in Rng(c.ekeys) : ExactlyOnce(r.keys, alive)>>} ELSE {})
     \cup (IF Has(c, "nkeys") THEN
        \* nodes of the snapshots: those of some hyperedge (or every node, if snapshots carry all nodes)
        {<<"one_value_per_node", \A r \in Rng(c.nkeys) :
               NodesOnce(r.keys, touched) \/ (alive # {} /\ NodesOnce(r.keys, S.nodes))>>} ELSE {})

C20Clauses(c) ==
  LET S == DecState(c.st) IN
  IF c.what = "static" THEN StaticClauses(c, PlainOf(S)) ELSE TempClauses(c, S)

Sizes(H) == {Cardinality(e) : e \in H.edges}
StaticValues(c, H) ==
  [edges     |-> H.edges,
   nodes     |-> H.nodes,
   by_s      |-> {[s |-> s, betw |-> Graph(SBetweenness(H, s)), close |-> Graph(SCloseness(H, s))] : s \in Rng(c.ss)},
   nbetw     |-> IF c.nodes THEN Graph(NodeBetweenness(H)) ELSE {},
   nclose    |-> IF c.nodes THEN Graph(NodeCloseness(H)) ELSE {},
   comember  |-> {<<p[1], p[2], CoMember(H, p[1], p[2])>> : p \in {q \in H.nodes \X H.nodes : q[1] < q[2] /\ CoMember(H, q[1], q[2]) > 0}},
   uniform   |-> IF Cardinality(Sizes(H)) = 1 THEN CHOOSE z \in Sizes(H) : TRUE ELSE 0,
   connected |-> HConnected(H),
   zero_based |-> H.nodes = 1..Cardinality(H.nodes)]

TempValues(c, S) ==
  [times  |-> SnapTimes(S),
   alive  |-> UNION {EdgesAt(S, tm) : tm \in SnapTimes(S)},
   touched |-> UNION UNION {EdgesAt(S, tm) : tm \in SnapTimes(S)},
   nodes  |-> S.nodes,
   by_s   |-> {[s |-> s, betw |-> Graph(AvgSBetweenness(S, s)), close |-> Graph(AvgSCloseness(S, s))] : s \in Rng(c.ss)},
   nbetw  |-> IF c.nodes THEN Graph(AvgNodeBetweenness(S, FALSE)) ELSE {},
   nclose |-> IF c.nodes THEN Graph(AvgNodeCloseness(S, FALSE)) ELSE {},
   nbetw_all  |-> IF c.nodes THEN Graph(AvgNodeBetweenness(S, TRUE)) ELSE {},
   nclose_all |-> IF c.nodes THEN Graph(AvgNodeCloseness(S, TRUE)) ELSE {}]

C20Values(c) ==
  LET S == DecState(c.st) IN
  IF c.what = "static" THEN StaticValues(c, PlainOf(S)) ELSE TempValues(c, S)

R == INSTANCE OracleRunner WITH Clauses <- C20Clauses, Values <- C20Values
TInit == R!OInit
TNext == R!ONext
=============================================================================
