---------------------------- MODULE Trace_X10 ----------------------------
(* X10: what is_all_to_all, is_natural_coupling and higher_order_MSF did on     *)
(* real objects, against spec/ext/SynchDispatch.tla.  A case =                  *)
(*   [id, st, a2a : [ok, val], nat : Seq([js, ok, val]),                         *)
(*    msf : Seq([js, df, s1, nint, ok, none, single, multi : Seq(call), tuple,   *)
(*               nspec, last, same])]                                            *)
(* a logged call of a (stubbed) integrator = [jh (id of the Jacobian passed, 0   *)
(* when a list is passed), npts (length of the interval passed), given (the     *)
(* interval is the caller's), pt (the single point, -1 when not one integer)].   *)
(* nspec = length of the third component of the result (-1: none), last = that   *)
(* component as one integer (-1 if not), same = the hypergraph's abstract state  *)
(* is unchanged by the call.                                                     *)
EXTENDS Dec, SynchDispatch, Json
VARIABLES ci, nbad

A2AClauses(c, S) ==
  IF Keys(S) = {} THEN {} ELSE
  {<<"all_to_all_returns", c.a2a.ok>>,
   <<"all_to_all_is_every_subset_up_to_max_size", c.a2a.ok => (c.a2a.val = SDAllToAll(S))>>,
   <<"all_to_all_by_count_agrees", SDAllToAllByCount(S) = SDAllToAll(S)>>}

NatClauses(c) == UNION {
  {<<"natural_coupling_returns", r.ok>>,
   <<"natural_coupling_iff_all_jacobians_equal", r.ok => (r.val = SDNatural(r.js))>>} : r \in Rng(c.nat)}

OneMSF(r, S) ==
  LET b == SDBranch(S, r.js, r.df)  N == SDN(S) IN
  IF ~r.ok THEN {<<"msf_returns", FALSE>>} ELSE
  {<<"msf_branch_is_the_specified_one",
       /\ (b = "none")   <=> r.none
       /\ (b = "single") <=> (Len(r.single) > 0)
       /\ (b = "multi")  <=> (Len(r.multi) > 0)>>,
   <<"msf_exactly_one_branch", ~(Len(r.single) > 0 /\ Len(r.multi) > 0) /\ (r.none => Len(r.single) + Len(r.multi) = 0)>>,
   <<"msf_single_integrates_interval_then_spectrum",
       b = "single" =>
          /\ Len(r.single) = 2
          /\ r.single[1].given /\ r.single[1].npts = r.nint
          /\ r.single[2].npts = N - 1
          /\ \A i \in 1..Len(r.single) : r.single[i].jh = r.js[1]
          /\ r.tuple /\ r.nspec = N>>,
   <<"msf_multi_integrates_interval_then_sigma1_times_N",
       b = "multi" =>
          /\ Len(r.multi) = 2
          /\ r.multi[1].given /\ r.multi[1].npts = r.nint
          /\ r.multi[2].npts = 1 /\ r.multi[2].pt = r.s1 * N
          /\ r.tuple /\ r.nspec = 1 /\ r.last = r.s1 * N>>,
   <<"msf_leaves_the_hypergraph_unchanged", r.same>>}

X10Clauses(c) ==
  LET S0 == DecState(c.st)
      S  == [S0 EXCEPT !.E = TLCEval(S0.E)]
  IN A2AClauses(c, S) \cup NatClauses(c) \cup
     (IF Keys(S) = {} THEN {} ELSE UNION {OneMSF(r, S) : r \in Rng(c.msf)})

R == INSTANCE CaseRunner WITH Clauses <- X10Clauses
TInit == R!CInit
TNext == R!CNext
=============================================================================
