---------------------------- MODULE Trace_C15L ----------------------------
(***************************************************************************)
(* C15 (closed forms, MANY nodes): the statement quantifies over all N.    *)
(* Brute force over all possible hyperedges is out of reach for N > 6, but *)
(*   - the Poisson parameter of ONE hyperedge is a sum over its node pairs *)
(*     (the definition itself, Lambda of HyMMSBM.tla),                     *)
(*   - kappa_d = C(N-2, d-2) d (d-1) / 2 is a closed form of the           *)
(*     definitions (Kappa; decided here whenever it fits 31 bits),         *)
(*   - the expected number of hyperedges of a size, the average degree for *)
(*     ONE size and the constant C are decided against the operators       *)
(*     ExpCountCF / AvgDegCF / Binom/Kappa, which MC_HyMMSBM proves equal  *)
(*     to the brute-force definitions for every (u, w) of its universes.   *)
(* Same conventions as Trace_C15 (integer c.u, c.w; logged values already  *)
(* multiplied by the power-of-two scale and converted to [num, den]).      *)
(***************************************************************************)
EXTENDS HyMMSBM, Json, IOUtils
VARIABLES ci, nbad

LRng(s)    == {s[i] : i \in DOMAIN s}
LHas(r, f) == f \in DOMAIN r
LRat(j)    == <<j[1], j[2]>>
LSame(a, b) == RNorm(a) = RNorm(b)

\* Lambda of one hyperedge, as LambdaG of HyMMSBM.tla but summed row by row: the recursive sums of HyMMSBM.tla are as deep
\* as the set is large, and a hyperedge of 64 nodes has 2016 pairs
LLambdaG(G, e) == LET Row(i) == LET T(j) == G[i][j] IN ISum(T, {j \in e : j > i}) IN ISum(Row, e)
ASSUME \A e \in SUBSET (1..4) : LET G == [i \in 1..4 |-> [j \in 1..4 |-> i * j + i + j]] IN LLambdaG(G, e) = LambdaG(G, e)

LInBounds(c) == /\ c.N \in 2..64 /\ Len(c.u) = c.N /\ Len(c.w) \in 1..3
                /\ \A i \in DOMAIN c.u : Len(c.u[i]) = Len(c.w) /\ \A a \in DOMAIN c.u[i] : c.u[i][a] \in 0..3
                /\ \A a \in DOMAIN c.w : Len(c.w[a]) = Len(c.w) /\ \A b \in DOMAIN c.w[a] : c.w[a][b] \in 0..3
                /\ Symmetric(c.w)

C15LClauses(c) ==
  LET U == c.u  W == c.w  N == c.N
      G == TLCEval(Gram(U, W))
      bfsum == TLCEval(BfSum(U, W))
  IN
  {<<"harness_bounds", LInBounds(c)>>}
  \cup (IF LHas(c, "pp") THEN
          {<<"poisson_params", /\ Len(c.pp) = Len(c.edges)
                               /\ \A j \in DOMAIN c.edges : LSame(LRat(c.pp[j]), RInt(LLambdaG(G, LRng(c.edges[j]))))>>} ELSE {})
  \cup (IF LHas(c, "kappa") THEN
          {<<"kappa", \A p \in LRng(c.kappa) : LSame(LRat(p[2]), RInt(Kappa(N, p[1])))>>} ELSE {})
  \cup (IF LHas(c, "C") THEN
          \* one size per record: binom(N-2, d-2) / kappa_d (the harness sends the sizes whose kappa fits 31 bits)
          {<<"C_constant", \A r \in LRng(c.C) : LSame(LRat(r.val), <<Binom(N - 2, r.d - 2), Kappa(N, r.d)>>)>>} ELSE {})
  \cup (IF LHas(c, "dimseq") THEN
          {<<"dimension_sequence", \A r \in LRng(c.dimseq) :
                 LET dims == (IF r.dyadic THEN 2 ELSE 3)..c.D
                     pos == IF bfsum[1] > 0 THEN dims ELSE {}                  \* sizes with a zero mean are not listed
                 IN /\ {p[1] : p \in LRng(r.got)} = pos /\ Len(r.got) = Cardinality(pos)
                    /\ \A p \in LRng(r.got) : p[1] \in pos => LSame(LRat(p[2]), ExpCountCFT(bfsum, p[1]))>>} ELSE {})
  \cup (IF LHas(c, "avg") THEN
          {<<"expected_degree_average", \A r \in LRng(c.avg) : LSame(LRat(r.val), AvgDegCFT(bfsum, N, {r.d}))>>} ELSE {})

R == INSTANCE CaseRunner WITH Clauses <- C15LClauses
TInit == R!CInit
TNext == R!CNext
=============================================================================
