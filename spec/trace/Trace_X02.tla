---------------------------- MODULE Trace_X02 ----------------------------
(* X02: what write_hif wrote / read_hif read back, what the label encoder and   *)
(* hypergraphx.utils.labeling returned, and what simplicial_complex built,      *)
(* against Interchange.tla.  One case = one real object (abstract state c.st,   *)
(* nodes are spec ids under the label map of the harness) + the logged values.  *)
(*                                                                              *)
(* hif : wrote, shape, doc = [nodes, edges, incidences, hmd] (records carry     *)
(*       tok = [w, md]; node names are spec ids, names that are no node of the  *)
(*       object are negative; edge names are numbered), read, built, imd, after *)
(* enc : ok, lt (pairs m, n with label(m) < label(n)), codes (node, code), bn / *)
(*       batch, back, inv (code, node), rel (e, r, b, canon), rels, irel        *)
(* simp: ok, nodes, edges, twice_ok, twice, after                               *)
EXTENDS Dec, Interchange
VARIABLES ci, nbad

HifClauses(c) ==
  LET S     == DecState(c.st)
      imd   == {<<Rng(t[1]), t[2], t[3]>> : t \in Rng(c.imd)}
      docok == c.wrote /\ c.shape
      R     == ReadHif(c.doc)
      maps  == BackMaps(S, c.built)
      back  == docok /\ c.read
      str   == \E f \in maps : BackStructure(S, c.built, f)
  IN {<<"write_hif:returns_and_the_file_is_json", c.wrote>>,
      <<"write_hif:document_is_hif_shaped", c.wrote => c.shape>>,
      <<"write_hif:no_record_twice", docok => HifCovered(c.doc)>>,
      <<"write_hif:one_edge_name_per_hyperedge", docok => DocHyperedgesOK(c.doc, S)>>,
      <<"write_hif:node_names_are_the_nodes", docok => DocNodesOK(c.doc, S)>>,
      <<"write_hif:hypergraph_metadata", docok => c.doc.hmd = S.hmd>>,
      <<"write_hif:weights", docok => ReadWeightsOK(R, S)>>,
      <<"write_hif:hyperedge_metadata", docok => ReadEdgeMdOK(R, S)>>,
      <<"write_hif:node_metadata", docok => ReadNodeMdOK(R, S)>>,
      <<"write_hif:incidence_metadata", docok => ReadIncMdOK(R, S, imd)>>,
      <<"write_hif:source_unchanged", DecState(c.after) = S>>,
      <<"roundtrip:read_hif_accepts_the_written_file", c.wrote => c.read>>,
      <<"roundtrip:nodes_and_hyperedges", back => str>>,
      <<"roundtrip:hypergraph_metadata", back => c.built.hmd = S.hmd>>,
      <<"roundtrip:weights_and_metadata_in_the_records",
        (back /\ str) => \E f \in maps : BackStructure(S, c.built, f) /\ BackAttrs(S, c.built, f, imd)>>}

EncClauses(c) ==
  LET ns   == Rng(c.st.nodes)
      N    == Cardinality(ns)
      LtS  == {<<p[1], p[2]>> : p \in Rng(c.lt)}
      Lt(m, n) == <<m, n>> \in LtS
      code == [n \in {p[1] : p \in Rng(c.codes)} |-> (CHOOSE p \in Rng(c.codes) : p[1] = n)[2]]
      bij  == c.ok /\ Len(c.codes) = N /\ Len(c.st.nodes) = N /\ IsEncoding(code, ns)
      inv  == InverseOf(code)
      In(sq, A) == \A i \in DOMAIN sq : sq[i] \in A
  IN {<<"get_mapping:returns_and_encodes_every_node", c.ok>>,
      <<"get_mapping:bijection_nodes_onto_0_to_N-1", c.ok => bij>>,
      <<"get_mapping:order_preserving", bij => code = Encoder(ns, Lt)>>,
      <<"map_nodes:elementwise_map_node", bij =>
          /\ Len(c.batch) = Len(c.bn) /\ In(c.bn, ns)
          /\ \A i \in DOMAIN c.bn : c.batch[i] = code[c.bn[i]]>>,
      <<"inverse_map_nodes:inverse_of_the_mapping", bij =>
          /\ Len(c.back) = N /\ In(c.back, ns)
          /\ \A i \in 1..N : code[c.back[i]] = i - 1>>,
      <<"get_inverse_mapping:dict_code_to_node", bij =>
          /\ Len(c.inv) = N
          /\ {<<p[1], p[2]>> : p \in Rng(c.inv)} = {<<code[n], n>> : n \in ns}>>,
      <<"relabel_edge:position_by_position", bij => \A r \in Rng(c.rel) : In(r.e, ns) /\ r.r = Relabel(code, r.e)>>,
      <<"relabel_edge:keeps_size", bij => \A r \in Rng(c.rel) :
          Len(r.r) = Len(r.e) /\ Cardinality(Rng(r.r)) = Cardinality(Rng(r.e))>>,
      <<"inverse_relabel_edge:undoes_relabel_edge", bij => \A r \in Rng(c.rel) : r.b = r.e>>,
      <<"relabel_edge:stored_edge_stays_sorted", bij => \A r \in Rng(c.rel) : r.canon => Increasing(r.r)>>,
      <<"relabel_edges:relabel_edge_of_each", bij =>
          /\ Len(c.rels.r) = Len(c.rel) /\ Len(c.rels.b) = Len(c.rel)
          /\ \A i \in DOMAIN c.rel : c.rels.r[i] = c.rel[i].r /\ c.rels.b[i] = c.rel[i].e>>,
      <<"relabel_edge:undoes_inverse_relabel_edge", bij => \A q \in Rng(c.irel) :
          In(q.r, DOMAIN inv) /\ q.e = Relabel(inv, q.r) /\ q.rr = q.r>>}

SimpClauses(c) ==
  LET S  == DecState(c.st)
      Fs == {Rng(e.s) : e \in Rng(c.edges)}
  IN {<<"simplicial_complex:returns", c.ok>>,
      <<"simplicial_complex:hyperedges_are_the_downward_closure", c.ok => Fs \ {{}} = ClosureFaces(S)>>,
      <<"simplicial_complex:each_hyperedge_once", c.ok => Len(c.edges) = Cardinality(Fs)>>,
      <<"simplicial_complex:nodes", c.ok =>
          /\ Covered(S) \subseteq Rng(c.nodes) /\ Rng(c.nodes) \subseteq S.nodes
          /\ Len(c.nodes) = Cardinality(Rng(c.nodes))>>,
      <<"simplicial_complex:source_unchanged", DecState(c.after) = S>>,
      <<"simplicial_complex:idempotent", c.ok =>
          c.twice_ok /\ {Rng(e.s) : e \in Rng(c.twice)} \ {{}} = Fs \ {{}}>>}

X02Clauses(c) == CASE c.kind = "hif" -> HifClauses(c)
                   [] c.kind = "enc" -> EncClauses(c)
                   [] c.kind = "simp" -> SimpClauses(c)
R02 == INSTANCE CaseRunner WITH Clauses <- X02Clauses
TInit == R02!CInit
TNext == R02!CNext
=============================================================================
