---------------------------- MODULE CaseRunner ----------------------------
(* Generic never-disabled validator for one-call "traces": every case is the  *)
(* input of a pure function (an abstract hypergraph + arguments) together     *)
(* with the values the implementation returned.  Clauses(case) is supplied by *)
(* the instantiating module and yields the set of <<name, holds>> pairs that  *)
(* relate the logged values to the specification's operators.                 *)
EXTENDS Naturals, Sequences, FiniteSets, TLC, Json, IOUtils
CONSTANT Clauses(_)
VARIABLES ci, nbad

\* the batch is deserialised once (register 42), not at every step
Cases == TLCGet(42)
CInit == ci = 1 /\ nbad = 0 /\ TLCSet(42, JsonDeserialize(IOEnv.TRACE_FILE).cases)
CNext == /\ ci <= Len(Cases)
         /\ LET failed == {c[1] : c \in {c \in Clauses(Cases[ci]) : ~c[2]}}
                nb == IF failed = {} THEN nbad ELSE nbad + 1
            IN /\ ci' = ci + 1
               /\ nbad' = nb
               /\ (failed = {} \/ PrintT("RJ " \o ToString(<<ci, 1, failed>>)))
               /\ (ci < Len(Cases) \/ PrintT("DONE " \o ToString(ci) \o " " \o ToString(nb)))
=============================================================================
