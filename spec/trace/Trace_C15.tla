---------------------------- MODULE Trace_C15 ----------------------------
(***************************************************************************)
(* C15 (closed forms): values returned by HyMMSBM.poisson_params,          *)
(* expected_degree, dimension_sequence(expected=True), log_kappa and C on  *)
(* real model objects against the DEFINITIONS of HyMMSBM.tla (brute force  *)
(* over all possible hyperedges).                                          *)
(* A case carries integer matrices c.u (N x K), c.w (K x K): the model was *)
(* built with u / su and w / sw (su, sw powers of two) and the harness     *)
(* multiplied every returned quantity that is linear in lambda by          *)
(* su^2 * sw (exactly, a power of two) before converting it to the         *)
(* fraction [num, den] it should be.  Nodes are spec ids 1..N.             *)
(***************************************************************************)
EXTENDS HyMMSBM, Json, IOUtils
VARIABLES ci, nbad

Rng(s)    == {s[i] : i \in DOMAIN s}
Has(r, f) == f \in DOMAIN r
Rat(j)    == <<j[1], j[2]>>
RSame(a, b) == RNorm(a) = RNorm(b)         \* no cross-multiplication: nothing can overflow

InBounds(c) == /\ c.N \in 2..6 /\ Len(c.u) = c.N /\ Len(c.w) \in 1..3
               /\ \A i \in DOMAIN c.u : Len(c.u[i]) = Len(c.w) /\ \A a \in DOMAIN c.u[i] : c.u[i][a] \in 0..3
               /\ \A a \in DOMAIN c.w : Len(c.w[a]) = Len(c.w) /\ \A b \in DOMAIN c.w[a] : c.w[a][b] \in 0..3
               /\ Symmetric(c.w)

C15Clauses(c) ==
  LET U == c.u  W == c.w  N == c.N
      Lam == TLCEval(LamTable(U, W))
  IN
  {<<"harness_bounds", InBounds(c)>>}
  \cup (IF Has(c, "pp") THEN
          {<<"poisson_params", /\ Len(c.pp) = Len(c.edges)
                               /\ \A j \in DOMAIN c.edges : RSame(Rat(c.pp[j]), RInt(Lam[Rng(c.edges[j])]))>>} ELSE {})
  \cup (IF Has(c, "ed") THEN
          {<<"expected_degree_per_node", \A r \in Rng(c.ed) :
                 /\ Len(r.per) = N
                 /\ \A i \in 1..N : RSame(Rat(r.per[i]), ExpDegBF(Lam, N, Rng(r.ds), i))>>,
           <<"expected_degree_average", \A r \in Rng(c.ed) : Has(r, "avg") => RSame(Rat(r.avg), AvgDegBF(Lam, N, Rng(r.ds)))>>} ELSE {})
  \cup (IF Has(c, "dimseq") THEN
          {<<"dimension_sequence", \A r \in Rng(c.dimseq) :
                 LET dims == (IF r.dyadic THEN 2 ELSE 3)..c.D
                     pos == {d \in dims : ExpCountBF(Lam, N, d)[1] > 0}        \* sizes with a zero mean are not listed
                 IN /\ {p[1] : p \in Rng(r.got)} = pos /\ Len(r.got) = Cardinality(pos)
                    /\ \A p \in Rng(r.got) : p[1] \in pos => RSame(Rat(p[2]), ExpCountBF(Lam, N, p[1]))>>} ELSE {})
  \cup (IF Has(c, "kappa") THEN
          {<<"kappa", \A p \in Rng(c.kappa) : RSame(Rat(p[2]), RInt(Kappa(N, p[1])))>>} ELSE {})
  \cup (IF Has(c, "C") THEN
          \* the documented definition of C: sum over d of binom(N-2, d-2) / kappa_d
          {<<"C_constant", \A r \in Rng(c.C) :
                 LET T(d) == <<Binom(N - 2, d - 2), Kappa(N, d)>> IN RSame(Rat(r.val), RSum(T, Rng(r.ds)))>>} ELSE {})

R == INSTANCE CaseRunner WITH Clauses <- C15Clauses
TInit == R!CInit
TNext == R!CNext
=============================================================================
