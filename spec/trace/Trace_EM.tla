---------------------------- MODULE Trace_EM ----------------------------
(***************************************************************************)
(* Batch trace validator of EM runs against the monitor machine EMDriver   *)
(* (C15: HyMMSBM.fit with the same seed and n_iter = 1..T; C17: the        *)
(* train_info table / hook events of HypergraphMT.fit).                    *)
(*                                                                         *)
(* TRACE_FILE: {"traces": [{"cfg": {...}, "ev": [event, ...]}, ...]}       *)
(*   {"ev":"start","r"}                                                    *)
(*   {"ev":"step","r","it","obj","objx","conv" [,"aux"] [,"f":{flags}]}    *)
(*        it: the code's iteration index (0-based) of the recorded value   *)
(*        obj: tolerance rank, objx: exact rank of the objective (harness) *)
(*   {"ev":"end","r" [,"objx"] [,"chosen"]}            (objx/chosen: hooks) *)
(*   {"ev":"return" [,"maxx"] [,"same":[bool per realisation]]}            *)
(* The validator is never disabled and never guesses: every event is       *)
(* consumed, the guard of the corresponding action and the contracts are   *)
(* evaluated as named clauses on the state BEFORE the event, one RJ line   *)
(* is printed per event with a failing clause, and the machine continues   *)
(* from the logged values (resynchronisation).  Clauses prefixed "m:" bind *)
(* the code to model detail (MODEL-DRIFT when only they fail); the others  *)
(* are the statement's.                                                    *)
(***************************************************************************)
EXTENDS EMDriver, TLC, Json, IOUtils
VARIABLES ti, li, S, nbad, nev

Traces == JsonDeserialize(IOEnv.TRACE_FILE).traces
Has(r, f) == f \in DOMAIN r

Clauses(cfg, s, e) ==
  IF e.ev = "start" THEN {<<"m:realisation_order", StartOK(cfg, s, e.r)>>}
  ELSE IF e.ev = "step" THEN
    {<<"m:iteration_order", StepOK(cfg, s, e.r, e.it + 1 - s.it)>>,
     <<"likelihood_ascent", Ascent(cfg, s, e.obj)>>}
    \cup (IF Has(e, "aux") THEN {<<"map_ascent", AuxAscent(cfg, s, e.aux)>>} ELSE {})
    \cup (IF Has(e, "f") THEN
            {<<"fixed_parameters_stay", FixedStay(cfg, e.f)>>,
             <<"finite_nonnegative", FiniteNonNeg(e.f)>>,
             <<"w_symmetric", WSymmetric(e.f)>>,
             <<"w_diagonal_if_assortative", WDiagonalIfAssortative(cfg, e.f)>>} ELSE {})
  ELSE IF e.ev = "end" THEN
    {<<"m:realisation_end", e.r = s.r /\ EndOK(cfg, s)>>}
    \cup (IF Has(e, "objx") THEN {<<"m:final_is_last_recorded", e.objx = s.curx>>} ELSE {})
    \cup (IF Has(e, "chosen") THEN {<<"m:chosen_iff_strictly_better", e.chosen = Better(s)>>} ELSE {})
  ELSE IF e.ev = "return" THEN
    {<<"m:all_realisations_done", ReturnOK(cfg, s)>>}
    \cup (IF Has(e, "maxx") THEN {<<"max_loglik_is_best_final", s.nreal > 0 /\ e.maxx = s.best>>} ELSE {})
    \cup (IF Has(e, "same") THEN {<<"m:returned_parameters_of_best",
                                   s.bestR + 1 \in DOMAIN e.same /\ e.same[s.bestR + 1]>>} ELSE {})
  ELSE {<<"m:known_event", FALSE>>}

\* successor of the machine, taking the logged values (so that a rejected event does not poison the next ones)
Eff(cfg, s, e) ==
  IF e.ev = "start" THEN StartReal(s, e.r)
  ELSE IF e.ev = "step" THEN
    LET s1 == [EMStep(s, e.it + 1 - s.it, e.obj, e.objx, IF Has(e, "aux") THEN e.aux ELSE 0) EXCEPT !.r = e.r, !.phase = "run"]
    IN IF e.conv THEN Converge(s1) ELSE s1
  ELSE IF e.ev = "end" THEN EndReal([s EXCEPT !.r = e.r])
  ELSE IF e.ev = "return" THEN Return(s)
  ELSE s

TInit == ti = 1 /\ li = 1 /\ S = Init0 /\ nbad = 0 /\ nev = 0
Report(failed) == failed = {} \/ PrintT("RJ " \o ToString(<<ti, li, failed>>))
TNext ==
  /\ ti <= Len(Traces)
  /\ LET tr == Traces[ti] IN
     IF li > Len(tr.ev)
     THEN LET failed == IF S.phase = "done" THEN {} ELSE {"m:trace_complete"} IN
          /\ ti' = ti + 1 /\ li' = 1 /\ S' = Init0 /\ nev' = nev
          /\ nbad' = IF failed = {} THEN nbad ELSE nbad + 1
          /\ Report(failed)
          /\ (ti < Len(Traces) \/ PrintT("DONE " \o ToString(ti) \o " " \o ToString(nev) \o " " \o ToString(nbad')))
     ELSE LET e == tr.ev[li]
              failed == {c[1] : c \in {c \in Clauses(tr.cfg, S, e) : ~c[2]}}
          IN /\ S' = Eff(tr.cfg, S, e) /\ li' = li + 1 /\ ti' = ti /\ nev' = nev + 1
             /\ nbad' = IF failed = {} THEN nbad ELSE nbad + 1
             /\ Report(failed)
=============================================================================
