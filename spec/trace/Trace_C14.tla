---------------------------- MODULE Trace_C14 ----------------------------
(***************************************************************************)
(* C14: validator for calls of the random generators.  One case = one call *)
(* (arguments, seeds, projection of the argument before/after, projection  *)
(* of the result); the clause set is the generator's relation of           *)
(* Generators.tla plus what only the raw listing shows (a hyperedge lists  *)
(* a node once, a hyperedge is listed once).                               *)
(* SeedFunctional: `seen` maps (function, arguments, seed) to the first    *)
(* result observed in the batch; every later call with the same key must   *)
(* return the same hypergraph (a batch-wide relation, as the digests of    *)
(* C07).  Never disabled: RJ line per failing case, DONE at the end.       *)
(* Kind = "hg" for all generators but HOADmodel (Kind = "temp").           *)
(***************************************************************************)
EXTENDS Dec, Generators, Json, IOUtils
VARIABLES ci, nbad, seen

Cases == JsonDeserialize(IOEnv.TRACE_FILE).cases
Once(sq) == Len(sq) = Cardinality(Rng(sq))
Counts(c) == Pairs2Fun(c.counts)

\* what the listing itself must satisfy
Listing(j) ==
  {<<"hyperedge_lists_distinct_nodes", \A e \in Rng(j.edges) : Once(e.k.s)>>,
   <<"hyperedges_listed_once", Len(j.edges) = Cardinality({DecKey(e.k) : e \in Rng(j.edges)})>>,
   <<"nodes_listed_once", Once(j.nodes)>>,
   <<"projection_complete", j.err = "">>}

Seeded(c) == c.fn \in {"random_hypergraph", "random_uniform_hypergraph"} /\ c.hasseed /\ c.ok
SeedFunctional(c, Q) ==
  IF Seeded(c) THEN {<<"same_seed_same_hypergraph", c.key \in DOMAIN seen => seen[c.key] = Q>>} ELSE {}

DecRs(rs) == [z \in {p[1] : p \in Rng(rs)} |-> Rng(DecKeys((CHOOSE p \in Rng(rs) : p[1] = z)[2]))]

C14Clauses(c) ==
  {<<"call_succeeds", c.ok>>} \cup
  (IF ~c.ok THEN {} ELSE
   LET Q == DecState(c.out) IN
   Listing(c.out) \cup SeedFunctional(c, Q) \cup
   (CASE c.fn \in {"random_hypergraph", "random_uniform_hypergraph"} -> RandHG(c.n, Counts(c), Q)
      [] c.fn = "scale_free_hypergraph" -> ScaleFree(c.n, Counts(c), Q)
      [] c.fn = "HOADmodel" -> HOAD(c.n, Rng(c.orders), c.time, Q)
      [] c.fn \in {"add_random_edge", "add_random_edges"} -> AddRandom(DecState(c.inp), c.size, c.num, Q)
      [] c.fn = "random_shuffle" ->
           Shuffle(DecState(c.inp), c.size, c.pzero, c.known, Rng(DecKeys(c.R)), Q)
           \cup (IF c.inplace THEN {} ELSE ArgumentUntouched(DecState(c.inp), DecState(c.arg_after)))
      [] c.fn = "random_shuffle_all_orders" ->
           ShuffleAll(DecState(c.inp), c.pzero, c.known, DecRs(c.Rs), Q)
           \cup (IF c.inplace THEN {} ELSE ArgumentUntouched(DecState(c.inp), DecState(c.arg_after)))
      [] OTHER -> {<<"unknown_function", FALSE>>}))

TInit == ci = 1 /\ nbad = 0 /\ seen = <<>>
TNext ==
  /\ ci <= Len(Cases)
  /\ LET c == Cases[ci]
         failed == {x[1] : x \in {y \in C14Clauses(c) : ~y[2]}}
         nb == IF failed = {} THEN nbad ELSE nbad + 1
     IN /\ ci' = ci + 1
        /\ nbad' = nb
        /\ seen' = IF Seeded(c) /\ c.key \notin DOMAIN seen THEN Upd(seen, c.key, DecState(c.out)) ELSE seen
        /\ (failed = {} \/ PrintT("RJ " \o ToString(<<ci, 1, failed>>)))
        /\ (ci < Len(Cases) \/ PrintT("DONE " \o ToString(ci) \o " " \o ToString(nb)))
=============================================================================
