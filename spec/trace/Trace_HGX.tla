---------------------------- MODULE Trace_HGX ----------------------------
(***************************************************************************)
(* Batch trace validator for the four containers.                          *)
(*                                                                         *)
(* Input (TRACE_FILE): {"traces": [[event, ...], ...]}; every event is one *)
(* public call on one object of a small object store, logged by the        *)
(* harness AFTER the call returned (the linearisation point of a           *)
(* sequential library), with                                               *)
(*   op   the call and its arguments (spec node ids, decoded by DecOp)     *)
(*   ok   FALSE iff the call raised                                        *)
(*   st   [[object id, abstract projection through the public API], ...]   *)
(*   q    answers of the queries of the touched object (optional fields)   *)
(*   d    derived objects (sub-hypergraphs, snapshots, ... ; optional)     *)
(* The validator is never disabled and never guesses: TNext always         *)
(* consumes the next event, evaluates named clauses that relate the logged *)
(* values to the operators of HGX on the pre/post states, prints one RJ    *)
(* line per event with a failing clause and then continues from the logged *)
(* projection (resynchronisation), so each event is judged on its own.     *)
(***************************************************************************)
EXTENDS HGX, Derive, Json, IOUtils, TLCExt

VARIABLES ti, li, store, nbad, nev
tvars == <<ti, li, store, nbad, nev>>

Input  == JsonDeserialize(IOEnv.TRACE_FILE)
Traces == Input.traces

---------------------------------------------------------------------------
(* Decoding *)
DecKey(j) == Key(Rng(j.s), Rng(j.t), j.x)
DecKeys(sq) == [i \in DOMAIN sq |-> DecKey(sq[i])]
SeqBag(sq) == [v \in Rng(sq) |-> Cardinality({i \in DOMAIN sq : sq[i] = v})]
SetBag(A)  == [v \in A |-> 1]
Pairs2Fun(sq) == [a \in {p[1] : p \in Rng(sq)} |-> (CHOOSE p \in Rng(sq) : p[1] = a)[2]]

DecOp(j) ==
  LET a == IF "k"  \in DOMAIN j THEN [j EXCEPT !.k = DecKey(j.k)] ELSE j
      b == IF "ks" \in DOMAIN a THEN [a EXCEPT !.ks = DecKeys(a.ks)] ELSE a
  IN IF b.op = "add_edges"
     THEN [b EXCEPT !.items = [i \in DOMAIN b.items |-> [b.items[i] EXCEPT !.k = DecKey(b.items[i].k)]]]
     ELSE b

DecState(j) ==
  LET ks == {DecKey(e.k) : e \in Rng(j.edges)}
  IN [nodes |-> Rng(j.nodes),
      E     |-> [k \in ks |-> LET e == CHOOSE c \in Rng(j.edges) : DecKey(c.k) = k
                              IN [w |-> e.w, md |-> e.md]],
      nmd   |-> Pairs2Fun(j.nmd),
      hmd   |-> j.hmd,
      wtd   |-> j.wtd]

StateOf(ev, o) == DecState((CHOOSE p \in Rng(ev.st) : p[1] = o)[2])
Objs(ev) == {p[1] : p \in Rng(ev.st)}
Has(r, f) == f \in DOMAIN r

---------------------------------------------------------------------------
(* Clauses: sets of <<name, holds>> *)

\* the call itself: outcome and effect, against Succ of the PRE state
StepClauses(ev, P, Q, op) ==
  LET valid == Valid(P, op) IN
  {<<"accepts_valid_call", valid => ev.ok>>,
   <<"effect", (valid /\ ev.ok) => Q \in Succ(P, op)>>,
   <<"rejected_call_changes_nothing", ~ev.ok => Q = P>>,
   <<"invalid_call_changes_nothing", (~valid /\ ev.ok) => Q = P>>}

\* the logged projection is itself a well-formed abstract hypergraph
ProjClauses(ev, j, Q) ==
  {<<"nodes_listed_once", Len(j.nodes) = Cardinality(Rng(j.nodes))>>,
   <<"edges_listed_once", Len(j.edges) = Cardinality({DecKey(e.k) : e \in Rng(j.edges)})>>,
   <<"projection_complete", j.err = "">>,
   <<"edges_within_nodes", \A k \in Keys(Q) : KN(k) \subseteq Q.nodes>>,
   <<"keys_well_formed", \A k \in Keys(Q) : WFKey(k)>>,
   <<"node_md_total", DOMAIN Q.nmd = Q.nodes>>}

FilterOf(r) == <<r.f[1], r.f[2]>>

\* answers of the queries against the operators evaluated on the POST state
QueryClauses(q, Q) ==
  (IF Has(q, "num_nodes") THEN {<<"num_nodes", q.num_nodes = Cardinality(Q.nodes)>>} ELSE {})
  \cup (IF Has(q, "num_edges") THEN {<<"num_edges", q.num_edges = Cardinality(Keys(Q))>>} ELSE {})
  \cup (IF Has(q, "byf") THEN UNION {
          LET f == FilterOf(r) EF == EdgesF(Q, f) IN
          {<<"get_edges", SeqBag(DecKeys(r.edges)) = SetBag(EF)>>}
          \cup (IF Has(r, "num") THEN {<<"num_edges_f", r.num = Cardinality(EF)>>} ELSE {})
          \cup (IF Has(r, "weights") THEN
                 {<<"get_weights", /\ Len(r.weights) = Len(r.edges)
                                    /\ \A i \in DOMAIN r.edges :
                                         LET k == DecKey(r.edges[i]) IN k \in Keys(Q) => r.weights[i] = Q.E[k].w>>}
                ELSE {})
          \cup (IF Has(r, "degseq") THEN
                 {<<"degree_sequence", /\ {p[1] : p \in Rng(r.degseq)} = Q.nodes
                                        /\ Len(r.degseq) = Cardinality(Q.nodes)
                                        /\ \A p \in Rng(r.degseq) : p[2] = Degree(Q, p[1], f)>>} ELSE {})
          \cup (IF Has(r, "degdist") THEN
                 {<<"degree_distribution", Pairs2Fun(r.degdist) = DegDist(Q, f) /\ Len(r.degdist) = Cardinality(DOMAIN DegDist(Q, f))>>} ELSE {})
          : r \in Rng(q.byf)} ELSE {})
  \cup (IF Has(q, "bynode") THEN UNION {
          LET f == FilterOf(r) n == r.n IN
          (IF Has(r, "inc") THEN {<<"incident_edges", SeqBag(DecKeys(r.inc)) =
                 (IF Kind = "dir" THEN SetBag(SourceEdges(Q, n, f)) (+) SetBag(TargetEdges(Q, n, f)) ELSE SetBag(Incident(Q, n, f)))>>} ELSE {})
          \cup (IF Has(r, "src") THEN {<<"source_edges", SeqBag(DecKeys(r.src)) = SetBag(SourceEdges(Q, n, f))>>} ELSE {})
          \cup (IF Has(r, "tgt") THEN {<<"target_edges", SeqBag(DecKeys(r.tgt)) = SetBag(TargetEdges(Q, n, f))>>} ELSE {})
          \cup (IF Has(r, "neigh") THEN {<<"neighbors", SeqBag(r.neigh) = SetBag(Neigh(Q, n, f))>>} ELSE {})
          \cup (IF Has(r, "deg") THEN {<<"degree", r.deg = Degree(Q, n, f)>>} ELSE {})
          \cup (IF Has(r, "indeg") THEN {<<"in_degree", r.indeg = InDeg(Q, n, f)>>} ELSE {})
          \cup (IF Has(r, "outdeg") THEN {<<"out_degree", r.outdeg = OutDeg(Q, n, f)>>} ELSE {})
          : r \in Rng(q.bynode)} ELSE {})
  \cup (IF Has(q, "check_node") THEN {<<"check_node", \A p \in Rng(q.check_node) : p[2] = (p[1] \in Q.nodes)>>} ELSE {})
  \cup (IF Has(q, "check_edge") THEN {<<"check_edge", \A p \in Rng(q.check_edge) : p[2] = (DecKey(p[1]) \in Keys(Q))>>} ELSE {})
  \cup (IF Has(q, "sizes") THEN {<<"get_sizes", SeqBag(q.sizes) = SizesBag(Q)>>} ELSE {})
  \cup (IF Has(q, "orders") THEN {<<"get_orders", SeqBag([i \in DOMAIN q.orders |-> q.orders[i] + 1]) = SizesBag(Q)>>} ELSE {})
  \cup (IF Has(q, "dist_sizes") THEN {<<"distribution_sizes", Pairs2Fun(q.dist_sizes) = SizesBag(Q) /\ Len(q.dist_sizes) = Cardinality(DOMAIN SizesBag(Q))>>} ELSE {})
  \cup (IF Has(q, "max_size") THEN {<<"max_size", Keys(Q) # {} => q.max_size = MaxSize(Q)>>} ELSE {})
  \cup (IF Has(q, "max_order") THEN {<<"max_order", Keys(Q) # {} => q.max_order + 1 = MaxSize(Q)>>} ELSE {})
  \cup (IF Has(q, "is_uniform") THEN {<<"is_uniform", q.is_uniform = IsUniform(Q)>>} ELSE {})
  \cup (IF Has(q, "is_weighted") THEN {<<"is_weighted", q.is_weighted = Q.wtd>>} ELSE {})
  \cup (IF Has(q, "nodes_md") THEN {<<"get_nodes_metadata", Pairs2Fun(q.nodes_md) = Q.nmd /\ Len(q.nodes_md) = Cardinality(Q.nodes)>>} ELSE {})
  \cup (IF Has(q, "edges_md") THEN {<<"get_edges_metadata",
           /\ Len(q.edges_md) = Cardinality(Keys(Q))
           /\ {DecKey(p[1]) : p \in Rng(q.edges_md)} = Keys(Q)
           /\ \A p \in Rng(q.edges_md) : DecKey(p[1]) \in Keys(Q) => p[2] = Q.E[DecKey(p[1])].md>>} ELSE {})
  \cup (IF Has(q, "all_nodes_md") THEN {<<"get_all_nodes_metadata", SeqBag(q.all_nodes_md) = BagOfFun(Q.nmd)>>} ELSE {})
  \cup (IF Has(q, "all_nodes_md_keys") THEN {<<"all_nodes_metadata_keys", SeqBag(q.all_nodes_md_keys) = SetBag(Q.nodes)>>} ELSE {})
  \cup (IF Has(q, "all_edges_md_n") THEN {<<"get_all_edges_metadata", q.all_edges_md_n = Cardinality(Keys(Q))>>} ELSE {})
  \cup (IF Has(q, "windows") THEN UNION {
          {<<"time_window", SeqBag(DecKeys(r.edges)) = SetBag({k \in Window(Q, r.a, r.b) : Pass(k, FilterOf(r))})>>}
          : r \in Rng(q.windows)} ELSE {})
  \cup (IF Has(q, "times_of") THEN {<<"get_times_for_edge", \A p \in Rng(q.times_of) : SeqBag(p[2]) = SetBag(TimesOf(Q, Rng(p[1])))>>} ELSE {})
  \cup (IF Has(q, "min_time") THEN {<<"min_time", Keys(Q) # {} => \A k \in Keys(Q) : q.min_time <= k.x /\ q.min_time \in Times(Q)>>} ELSE {})
  \cup (IF Has(q, "max_time") THEN {<<"max_time", Keys(Q) # {} => \A k \in Keys(Q) : q.max_time >= k.x /\ q.max_time \in Times(Q)>>} ELSE {})
  \cup (IF Has(q, "layers") THEN {<<"existing_layers", LayersUsed(Q) \subseteq Rng(q.layers)>>} ELSE {})
  \cup (IF Has(q, "sources") THEN {<<"get_sources", SeqBag([i \in DOMAIN q.sources |-> Rng(q.sources[i])]) = BagOfFun([k \in Keys(Q) |-> k.s])>>} ELSE {})
  \cup (IF Has(q, "targets") THEN {<<"get_targets", SeqBag([i \in DOMAIN q.targets |-> Rng(q.targets[i])]) = BagOfFun([k \in Keys(Q) |-> k.t])>>} ELSE {})
  \cup (IF Has(q, "overlap") THEN {<<"edge_overlap", \A p \in Rng(q.overlap) : p[2] = Overlap(Q, Rng(p[1]))>>} ELSE {})
  \cup (IF Has(q, "cc") THEN CCClauses(q.cc, Q) ELSE {})

---------------------------------------------------------------------------
TInit == ti = 1 /\ li = 1 /\ store = <<>> /\ nbad = 0 /\ nev = 0

Judge(ev) ==
  LET o   == ev.obj
      j   == (CHOOSE p \in Rng(ev.st) : p[1] = o)[2]
      Q   == DecState(j)
      op  == DecOp(ev.op)
      fresh == o \notin DOMAIN store
      P   == IF op.op = "new" THEN Empty(op.weighted, TypeName)
             ELSE IF op.op = "copy" THEN store[op.from]
             ELSE store[o]
      step == IF op.op \in {"new", "copy"} THEN {<<"fresh_object_state", Q = P>>}
              ELSE StepClauses(ev, P, Q, op)
      others == {<<"other_objects_untouched",
                   \A x \in (DOMAIN store) \cap Objs(ev) : x # o => StateOf(ev, x) = store[x]>>}
      qs == IF Has(ev, "q") THEN QueryClauses(ev.q, Q) ELSE {}
      ds == IF Has(ev, "d") THEN DeriveClauses(ev.d, Q) ELSE {}
  IN {c[1] : c \in {c \in step \cup others \cup ProjClauses(ev, j, Q) \cup qs \cup ds : ~c[2]}}

TNext ==
  /\ ti <= Len(Traces)
  /\ IF li > Len(Traces[ti])
     THEN /\ ti' = ti + 1 /\ li' = 1 /\ store' = <<>> /\ UNCHANGED <<nbad, nev>>
          /\ (ti < Len(Traces) \/ PrintT("DONE " \o ToString(nev) \o " " \o ToString(nbad)))
     ELSE LET ev == Traces[ti][li]
              failed == Judge(ev)
          IN /\ store' = [x \in Objs(ev) |-> StateOf(ev, x)]
             /\ li' = li + 1 /\ ti' = ti /\ nev' = nev + 1
             /\ nbad' = IF failed = {} THEN nbad ELSE nbad + 1
             /\ (failed = {} \/ PrintT("RJ " \o ToString(<<ti, li, failed>>)))
TSpec == TInit /\ [][TNext]_tvars
=============================================================================
