---------------------------- MODULE Trace_HGX ----------------------------
(***************************************************************************)
(* Batch trace validator for the four containers.                          *)
(*                                                                         *)
(* Input (TRACE_FILE): {"traces": [[event, ...], ...]}; every event is one *)
(* public call on one object of a small object store, logged by the        *)
(* harness AFTER the call returned (the linearisation point of a           *)
(* sequential library), with                                               *)
(*   op   the call and its arguments (spec node ids, decoded by DecOp)     *)
(*   ok   FALSE iff the call raised                                        *)
(*   st   [[object id, abstract projection through the public API], ...]   *)
(*   q    answers of the queries of the touched object (optional fields)   *)
(*   d    derived objects (sub-hypergraphs, snapshots, ... ; optional)     *)
(* The validator is never disabled and never guesses: TNext always         *)
(* consumes the next event, evaluates named clauses that relate the logged *)
(* values to the operators of HGX on the pre/post states, prints one RJ    *)
(* line per event with a failing clause and then continues from the logged *)
(* projection (resynchronisation), so each event is judged on its own.     *)
(***************************************************************************)
EXTENDS HGX, Dec, Derive, Json, IOUtils, TLCExt

VARIABLES ti, li, store, nbad, nev, seen, lays, imds
tvars == <<ti, li, store, nbad, nev, seen, lays, imds>>

\* the batch is deserialised once (register 42), not at every step
Traces == TLCGet(42)

---------------------------------------------------------------------------
(* Decoding (keys, states: module Dec) *)
DecOp(j) ==
  LET a == IF "k"  \in DOMAIN j THEN [j EXCEPT !.k = DecKey(j.k)] ELSE j
      b == IF "ks" \in DOMAIN a THEN [a EXCEPT !.ks = DecKeys(a.ks)] ELSE a
  IN IF b.op = "add_edges"
     THEN [b EXCEPT !.items = [i \in DOMAIN b.items |-> [b.items[i] EXCEPT !.k = DecKey(b.items[i].k)]]]
     ELSE b

StateOf(ev, o) == DecState((CHOOSE p \in Rng(ev.st) : p[1] = o)[2])
Objs(ev) == {p[1] : p \in Rng(ev.st)}

---------------------------------------------------------------------------
(* Clauses: sets of <<name, holds>> *)

\* the call itself: outcome and effect, against Succ of the PRE state
DecCrit(c) == LET f == Pairs2Fun(c) IN [a \in DOMAIN f |-> Rng(f[a])]
TSucc(P, op) ==
  IF op.op = "set_inc_md" THEN (IF op.k \in Keys(P) THEN {P} ELSE {}) ELSE     \* leaves the main state alone
  IF op.op = "filter"
  THEN FilterSucc(P, op.hasn, DecCrit(op.ncrit), op.hase, DecCrit(op.ecrit), op.mode, op.keep)
  ELSE Succ(P, op)

StepClauses(ev, P, Q, op) ==
  LET valid == TSucc(P, op) # {} IN
  {<<"accepts_valid_call", (valid /\ ~("mayreject" \in DOMAIN op)) => ev.ok>>,
   <<"effect", (valid /\ ev.ok) => Q \in TSucc(P, op)>>,
   <<"rejected_call_changes_nothing", ~ev.ok => Q = P>>,
   <<"invalid_call_changes_nothing", (~valid /\ ev.ok) => Q = P>>}

\* the logged projection is itself a well-formed abstract hypergraph
ProjClauses(ev, j, Q) ==
  {<<"nodes_listed_once", Len(j.nodes) = Cardinality(Rng(j.nodes))>>,
   <<"edges_listed_once", Len(j.edges) = Cardinality({DecKey(e.k) : e \in Rng(j.edges)})>>,
   <<"projection_complete", j.err = "">>,
   <<"edges_within_nodes", \A k \in Keys(Q) : KN(k) \subseteq Q.nodes>>,
   <<"keys_well_formed", \A k \in Keys(Q) : WFKey(k)>>,
   <<"node_md_total", DOMAIN Q.nmd = Q.nodes>>}

FilterOf(r) == <<r.f[1], r.f[2]>>

\* answers of the queries against the operators evaluated on the POST state
QueryClauses(q, Q) ==
  (IF Has(q, "num_nodes") THEN {<<"num_nodes", q.num_nodes = Cardinality(Q.nodes)>>} ELSE {})
  \cup (IF Has(q, "num_edges") THEN {<<"num_edges", q.num_edges = Cardinality(Keys(Q))>>} ELSE {})
  \cup (IF Has(q, "byf") THEN UNION {
          LET f == FilterOf(r) EF == EdgesF(Q, f) IN
          {<<"get_edges", SeqBag(DecKeys(r.edges)) = SetBag(EF)>>}
          \cup (IF Has(r, "num") THEN {<<"num_edges_f", r.num = Cardinality(EF)>>} ELSE {})
          \cup (IF Has(r, "weights") THEN
                 {<<"get_weights", /\ Len(r.weights) = Len(r.edges)
                                    /\ \A i \in DOMAIN r.edges :
                                         LET k == DecKey(r.edges[i]) IN k \in Keys(Q) => r.weights[i] = Q.E[k].w>>}
                ELSE {})
          \cup (IF Has(r, "degseq") THEN
                 {<<"degree_sequence", /\ {p[1] : p \in Rng(r.degseq)} = Q.nodes
                                        /\ Len(r.degseq) = Cardinality(Q.nodes)
                                        /\ \A p \in Rng(r.degseq) : p[2] = Degree(Q, p[1], f)>>} ELSE {})
          \cup (IF Has(r, "degdist") THEN
                 {<<"degree_distribution", Pairs2Fun(r.degdist) = DegDist(Q, f) /\ Len(r.degdist) = Cardinality(DOMAIN DegDist(Q, f))>>} ELSE {})
          : r \in Rng(q.byf)} ELSE {})
  \cup (IF Has(q, "bynode") THEN UNION {
          LET f == FilterOf(r) n == r.n IN
          (IF Has(r, "inc") THEN {<<"incident_edges", SeqBag(DecKeys(r.inc)) =
                 (IF Kind = "dir" THEN SetBag(SourceEdges(Q, n, f)) (+) SetBag(TargetEdges(Q, n, f)) ELSE SetBag(Incident(Q, n, f)))>>} ELSE {})
          \cup (IF Has(r, "src") THEN {<<"source_edges", SeqBag(DecKeys(r.src)) = SetBag(SourceEdges(Q, n, f))>>} ELSE {})
          \cup (IF Has(r, "tgt") THEN {<<"target_edges", SeqBag(DecKeys(r.tgt)) = SetBag(TargetEdges(Q, n, f))>>} ELSE {})
          \cup (IF Has(r, "neigh") THEN {<<"neighbors", SeqBag(r.neigh) = SetBag(Neigh(Q, n, f))>>} ELSE {})
          \cup (IF Has(r, "deg") THEN {<<"degree", r.deg = Degree(Q, n, f)>>} ELSE {})
          \cup (IF Has(r, "indeg") THEN {<<"in_degree", r.indeg = InDeg(Q, n, f)>>} ELSE {})
          \cup (IF Has(r, "outdeg") THEN {<<"out_degree", r.outdeg = OutDeg(Q, n, f)>>} ELSE {})
          : r \in Rng(q.bynode)} ELSE {})
  \cup (IF Has(q, "check_node") THEN {<<"check_node", \A p \in Rng(q.check_node) : p[2] = (p[1] \in Q.nodes)>>} ELSE {})
  \cup (IF Has(q, "check_edge") THEN {<<"check_edge", \A p \in Rng(q.check_edge) : p[2] = (DecKey(p[1]) \in Keys(Q))>>} ELSE {})
  \cup (IF Has(q, "sizes") THEN {<<"get_sizes", SeqBag(q.sizes) = SizesBag(Q)>>} ELSE {})
  \cup (IF Has(q, "orders") THEN {<<"get_orders", SeqBag([i \in DOMAIN q.orders |-> q.orders[i] + 1]) = SizesBag(Q)>>} ELSE {})
  \cup (IF Has(q, "dist_sizes") THEN {<<"distribution_sizes", Pairs2Fun(q.dist_sizes) = SizesBag(Q) /\ Len(q.dist_sizes) = Cardinality(DOMAIN SizesBag(Q))>>} ELSE {})
  \cup (IF Has(q, "max_size") THEN {<<"max_size", Keys(Q) # {} => q.max_size = MaxSize(Q)>>} ELSE {})
  \cup (IF Has(q, "max_order") THEN {<<"max_order", Keys(Q) # {} => q.max_order + 1 = MaxSize(Q)>>} ELSE {})
  \cup (IF Has(q, "is_uniform") THEN {<<"is_uniform", q.is_uniform = IsUniform(Q)>>} ELSE {})
  \cup (IF Has(q, "is_weighted") THEN {<<"is_weighted", q.is_weighted = Q.wtd>>} ELSE {})
  \cup (IF Has(q, "nodes_md") THEN {<<"get_nodes_metadata", Pairs2Fun(q.nodes_md) = Q.nmd /\ Len(q.nodes_md) = Cardinality(Q.nodes)>>} ELSE {})
  \cup (IF Has(q, "edges_md") THEN {<<"get_edges_metadata",
           /\ Len(q.edges_md) = Cardinality(Keys(Q))
           /\ {DecKey(p[1]) : p \in Rng(q.edges_md)} = Keys(Q)
           /\ \A p \in Rng(q.edges_md) : DecKey(p[1]) \in Keys(Q) => p[2] = Q.E[DecKey(p[1])].md>>} ELSE {})
  \cup (IF Has(q, "all_nodes_md") THEN {<<"get_all_nodes_metadata", SeqBag(q.all_nodes_md) = BagOfFun(Q.nmd)>>} ELSE {})
  \cup (IF Has(q, "all_nodes_md_keys") THEN {<<"all_nodes_metadata_keys", SeqBag(q.all_nodes_md_keys) = SetBag(Q.nodes)>>} ELSE {})
  \cup (IF Has(q, "all_edges_md_n") THEN {<<"get_all_edges_metadata", q.all_edges_md_n = Cardinality(Keys(Q))>>} ELSE {})
  \cup (IF Has(q, "windows") THEN UNION {
          {<<"time_window", SeqBag(DecKeys(r.edges)) = SetBag({k \in Window(Q, r.a, r.b) : Pass(k, FilterOf(r))})>>}
          : r \in Rng(q.windows)} ELSE {})
  \cup (IF Has(q, "times_of") THEN {<<"get_times_for_edge", \A p \in Rng(q.times_of) : SeqBag(p[2]) = SetBag(TimesOf(Q, Rng(p[1])))>>} ELSE {})
  \cup (IF Has(q, "min_time") THEN {<<"min_time", Keys(Q) # {} => \A k \in Keys(Q) : q.min_time <= k.x /\ q.min_time \in Times(Q)>>} ELSE {})
  \cup (IF Has(q, "max_time") THEN {<<"max_time", Keys(Q) # {} => \A k \in Keys(Q) : q.max_time >= k.x /\ q.max_time \in Times(Q)>>} ELSE {})
  \cup (IF Has(q, "layers") THEN {<<"existing_layers", LayersUsed(Q) \subseteq Rng(q.layers)>>} ELSE {})
  \cup (IF Has(q, "sources") THEN {<<"get_sources", SeqBag([i \in DOMAIN q.sources |-> Rng(q.sources[i])]) = BagOfFun([k \in Keys(Q) |-> k.s])>>} ELSE {})
  \cup (IF Has(q, "targets") THEN {<<"get_targets", SeqBag([i \in DOMAIN q.targets |-> Rng(q.targets[i])]) = BagOfFun([k \in Keys(Q) |-> k.t])>>} ELSE {})
  \cup (IF Has(q, "overlap") THEN {<<"edge_overlap", \A p \in Rng(q.overlap) : p[2] = Overlap(Q, Rng(p[1]))>>} ELSE {})
  \cup (IF Has(q, "cc") THEN CCClauses(q.cc, Q) ELSE {})

---------------------------------------------------------------------------
(* Derived objects (sub-hypergraphs, snapshots, aggregates, copies) logged with the event *)
DecFilter(j) == <<j[1], j[2]>>
DeriveOne(r, Q) ==
  CASE r.what = "induced" ->
         SubClauses("subhypergraph", DecState(r.res), Induced(Q, Rng(r.X)))
    [] r.what = "by_sizes" ->
         SubClauses("subhypergraph_by_orders", DecState(r.res), BySizes(Q, Rng(r.sizes), r.keep_nodes))
    [] r.what = "edges_sub" ->
         SubClauses("get_edges_subhypergraph", DecState(r.res), EdgesAsSub(Q, DecFilter(r.f), r.keep_isolated))
    [] r.what = "largest_sub" ->
         LET R == DecState(r.res) IN
         {<<"subhypergraph_largest_component",
            \E X \in LargestSubs(Q, DecFilter(r.f)) :
               R.nodes = X.nodes /\ R.E = X.E /\ R.nmd = X.nmd /\ R.wtd = X.wtd>>}
    [] r.what = "snapshots" ->
         LET got == Pairs2Fun(r.res) IN
         {<<"snapshot_times", DOMAIN got = SnapshotTimes(Q, r.a, r.b, r.bounded) /\ Len(r.res) = Cardinality(DOMAIN got)>>,
          <<"snapshot_hyperedges", \A tm \in DOMAIN got : DOMAIN DecState(got[tm]).E = DOMAIN SnapshotE(Q, tm)>>,
          <<"snapshot_weights", \A tm \in DOMAIN got : LET R == DecState(got[tm]) IN
                 DOMAIN R.E = DOMAIN SnapshotE(Q, tm) => \A k \in DOMAIN R.E : R.E[k].w = SnapshotE(Q, tm)[k]>>,
          <<"snapshot_weightedness", \A tm \in DOMAIN got : DecState(got[tm]).wtd = Q.wtd>>}
    [] r.what = "aggregate" ->
         LET got == Pairs2Fun(r.res) IN
         {<<"aggregate_windows", DOMAIN got = AggWindows(Q, r.width) /\ Len(r.res) = Cardinality(DOMAIN got)>>,
          <<"aggregate_nodes", \A i \in DOMAIN got : DecState(got[i]).nodes = Q.nodes>>,
          <<"aggregate_hyperedges", \A i \in DOMAIN got : DOMAIN DecState(got[i]).E = DOMAIN AggE(Q, r.width, i)>>,
          <<"aggregate_weights", \A i \in DOMAIN got : LET R == DecState(got[i]) IN
                 DOMAIN R.E = DOMAIN AggE(Q, r.width, i) => \A k \in DOMAIN R.E : R.E[k].w = AggE(Q, r.width, i)[k]>>,
          <<"aggregate_weightedness", \A i \in DOMAIN got : DecState(got[i]).wtd = Q.wtd>>}
    [] r.what = "mux_aggregated" ->
         LET R == DecState(r.res) IN
         {<<"aggregated_nodes", R.nodes = Q.nodes>>,
          <<"aggregated_hyperedges", DOMAIN R.E = DOMAIN MuxAggE(Q)>>,
          <<"aggregated_weights", DOMAIN R.E = DOMAIN MuxAggE(Q) => \A k \in DOMAIN R.E : R.E[k].w = MuxAggE(Q)[k]>>,
          <<"aggregated_weightedness", R.wtd = Q.wtd>>}
    [] OTHER -> {<<"unknown_derivation", FALSE>>}
DeriveClauses(d, Q) == UNION {DeriveOne(d[i], Q) : i \in DOMAIN d}

---------------------------------------------------------------------------
(* Persistence (C06): the loaded object equals the saved one; reserved keys of the text  *)
(* format (weight, time, layer) are ignored in hyperedge metadata.                       *)
Reserved == {"weight", "time", "layer"}
StripMd(E) == [k \in DOMAIN E |-> [w |-> E[k].w, md |-> Without(E[k].md, Reserved)]]
LoadClauses(ev, Q) ==
  IF ~Has(ev, "loaded") THEN {} ELSE
  LET R == DecState(ev.loaded.res) IN
  {<<"load_succeeds", ev.loaded.ok>>,
   <<"loaded_type", ev.loaded.ok => ev.loaded.cls = TypeName>>,
   <<"loaded_nodes", ev.loaded.ok => R.nodes = Q.nodes>>,
   <<"loaded_hyperedges", ev.loaded.ok => DOMAIN R.E = DOMAIN Q.E>>,
   <<"loaded_weightedness", ev.loaded.ok => R.wtd = Q.wtd>>,
   <<"loaded_weights", (ev.loaded.ok /\ DOMAIN R.E = DOMAIN Q.E) => \A k \in DOMAIN Q.E : R.E[k].w = Q.E[k].w>>,
   <<"loaded_edge_metadata", (ev.loaded.ok /\ DOMAIN R.E = DOMAIN Q.E) => StripMd(R.E) = StripMd(Q.E)>>,
   <<"loaded_node_metadata", (ev.loaded.ok /\ R.nodes = Q.nodes) => R.nmd = Q.nmd>>,
   <<"loaded_hypergraph_metadata", ev.loaded.ok => R.hmd = Q.hmd>>}

(* Fingerprint (C07): SHA-256 is an unknown function; the observations of a whole batch  *)
(* must be explainable by an INJECTIVE function of the abstract content.                  *)
HashClauses(ev, Q) ==
  IF ~Has(ev, "digest") THEN {} ELSE
  \* content = abstract state + the label map in use (the digest is over the real labels)
  {<<"equal_content_equal_hash", \A d \in DOMAIN seen : seen[d] = <<ev.lab, Q>> => d = ev.digest>>,
   <<"different_content_different_hash", ev.digest \in DOMAIN seen => seen[ev.digest] = <<ev.lab, Q>>>>}
  \cup (IF Has(ev, "digest_reordered")
        THEN {<<"hash_independent_of_dictionary_key_order", ev.digest_reordered = ev.digest>>} ELSE {})
  \* a fresh object given the same content in the opposite insertion order, every hyperedge's nodes listed backwards
  \cup (IF Has(ev, "digest_rebuilt")
        THEN {<<"hash_independent_of_insertion_order", ev.digest_rebuilt = ev.digest>>} ELSE {})
  \* two copies that differ in one (float) weight by a relative 2^-34 are different contents
  \cup (IF Has(ev, "digest_close")
        THEN {<<"hash_distinguishes_close_weights", ev.digest_close[1] # ev.digest_close[2]>>} ELSE {})

(* Multiplex layer registry (C04): the layers reported in use must come from insertions that were  *)
(* accepted - a history variable per object (the registry may keep layers whose records are gone). *)
LayersOfOp(op) ==
  CASE op.op = "add_edge"  -> {op.k.x}
    [] op.op = "add_edges" -> {op.items[i].k.x : i \in DOMAIN op.items}
    [] OTHER -> {}
LaysAfter(ev, op, Q) ==
  LET o == ev.obj
      before == IF op.op = "copy" /\ op.from \in DOMAIN lays THEN lays[op.from]
                ELSE IF o \in DOMAIN lays /\ op.op \notin {"new", "adopt"} THEN lays[o] ELSE {}
  IN before \cup LayersUsed(Q) \cup (IF ev.ok THEN LayersOfOp(op) ELSE {})
LayerClauses(ev, op, Q) ==
  IF Kind # "mux" \/ ~Has(ev, "q") \/ ~Has(ev.q, "layers") THEN {} ELSE
  {<<"layers_only_from_accepted_insertions", Rng(ev.q.layers) \subseteq LaysAfter(ev, op, Q)>>}

(* Incidence metadata ((hyperedge, node) -> metadata; Hypergraph, DirectedHypergraph, TemporalHypergraph).  *)
(* What happens to an entry when its hyperedge is removed is not promised, so the history variable only     *)
(* keeps DEMANDS: entries set since the hyperedge was last (re)inserted must be reported unchanged - also   *)
(* by a copy.  Entries the object still shows beyond that are accepted.                                      *)
ImdAfter(ev, op, Q) ==
  LET o == ev.obj
      base == IF op.op = "copy" /\ op.from \in DOMAIN imds THEN imds[op.from]
              ELSE IF op.op \in {"new", "adopt", "clear"} \/ o \notin DOMAIN imds THEN <<>>
              ELSE imds[o]
      kept == Restrict(base, {kn \in DOMAIN base : kn[1] \in Keys(Q)})
  IN IF op.op = "set_inc_md" /\ ev.ok /\ op.k \in Keys(Q) THEN Upd(kept, <<op.k, op.n>>, op.md) ELSE kept
IncClauses(ev, op, Q) ==
  IF ~Has(ev, "q") \/ ~Has(ev.q, "imd") THEN {} ELSE
  LET must == ImdAfter(ev, op, Q)
      kns  == {<<DecKey(p[1]), p[2]>> : p \in Rng(ev.q.imd)}
      got  == [kn \in kns |-> (CHOOSE p \in Rng(ev.q.imd) : <<DecKey(p[1]), p[2]>> = kn)[3]]
  IN {<<"incidence_metadata", \A kn \in DOMAIN must : kn \in kns /\ got[kn] = must[kn]>>}

---------------------------------------------------------------------------
TInit == /\ ti = 1 /\ li = 1 /\ store = <<>> /\ nbad = 0 /\ nev = 0 /\ seen = <<>> /\ lays = <<>> /\ imds = <<>>
         /\ TLCSet(42, JsonDeserialize(IOEnv.TRACE_FILE).traces)

Judge(ev) ==
  LET o   == ev.obj
      j   == (CHOOSE p \in Rng(ev.st) : p[1] = o)[2]
      Q   == DecState(j)
      op  == DecOp(ev.op)
      fresh == o \notin DOMAIN store
      P   == IF op.op = "new" THEN Empty(op.weighted, TypeName)
             ELSE IF op.op = "copy" THEN store[op.from]
             ELSE store[o]
      \* "adopt": the history continues on the object that load_hypergraph returned (its projection was
      \* judged by LoadClauses in the previous event); nothing to judge here
      step == IF op.op \in {"new", "copy"} THEN {<<"fresh_object_state", Q = P>>}
              ELSE IF op.op = "adopt" THEN {}
              ELSE StepClauses(ev, P, Q, op)
      others == {<<"other_objects_untouched",
                   \A x \in (DOMAIN store) \cap Objs(ev) : x # o => StateOf(ev, x) = store[x]>>}
      qs == IF Has(ev, "q") THEN QueryClauses(ev.q, Q) ELSE {}
      ds == IF Has(ev, "d") THEN DeriveClauses(ev.d, Q) ELSE {}
  IN {c[1] : c \in {c \in step \cup others \cup ProjClauses(ev, j, Q) \cup qs \cup ds
                          \cup LoadClauses(ev, Q) \cup HashClauses(ev, Q) \cup LayerClauses(ev, op, Q) \cup IncClauses(ev, op, Q) : ~c[2]}}

TNext ==
  /\ ti <= Len(Traces)
  /\ IF li > Len(Traces[ti])
     THEN /\ ti' = ti + 1 /\ li' = 1 /\ store' = <<>> /\ lays' = <<>> /\ imds' = <<>> /\ UNCHANGED <<nbad, nev, seen>>
          /\ (ti < Len(Traces) \/ PrintT("DONE " \o ToString(nev) \o " " \o ToString(nbad)))
     ELSE LET ev == Traces[ti][li]
              failed == Judge(ev)
          IN /\ store' = [x \in Objs(ev) |-> StateOf(ev, x)]
             /\ li' = li + 1 /\ ti' = ti /\ nev' = nev + 1
             /\ imds' = Upd(imds, ev.obj, ImdAfter(ev, DecOp(ev.op), StateOf(ev, ev.obj)))
             /\ lays' = IF Kind = "mux"
                        THEN Upd(lays, ev.obj, LaysAfter(ev, DecOp(ev.op), StateOf(ev, ev.obj)))
                        ELSE lays
             /\ seen' = IF Has(ev, "digest") /\ ev.digest \notin DOMAIN seen
                        THEN Upd(seen, ev.digest, <<ev.lab, StateOf(ev, ev.obj)>>) ELSE seen
             /\ nbad' = IF failed = {} THEN nbad ELSE nbad + 1
             /\ (failed = {} \/ PrintT("RJ " \o ToString(<<ti, li, failed>>)))
TSpec == TInit /\ [][TNext]_tvars
=============================================================================
