---------------------------- MODULE Trace_C11 ----------------------------
(* C11: what hypergraphx.motifs.compute_motifs / compute_directed_motifs return ('observed')  *)
(* against Motifs.tla.                                                                        *)
(*                                                                                            *)
(* A case is ONE abstract hypergraph seen through several real objects ("variants": other     *)
(* integer labels, other insertion histories, extra hyperedges larger than the order):        *)
(*   [k |-> order, vs |-> << [st |-> logged abstract state, obs |-> <<<<pattern, count>>, ...>>], ... >>] *)
(* Clause names end in "#i" (i = index of the variant judged, 0 = the case as a whole).       *)
(* Kind = "hg": undirected census; Kind = "dir": directed census.                             *)
EXTENDS Dec, Motifs
VARIABLES ci, nbad

Name(n, i) == n \o "#" \o ToString(i)
IsDup(sq) == Cardinality(Rng(sq)) # Len(sq)

(* ---- undirected ------------------------------------------------------------------------ *)
DecPat(sq) == {Rng(e) : e \in Rng(sq)}                       \* <<<<1,2>>, <<1,2,3>>>> -> {{1,2},{1,2,3}}
Core(H, k) == {e \in H : Cardinality(e) >= 2 /\ Cardinality(e) <= k}
RepOK(P, k) == P \subseteq EdgeUniverse(k)
\* the class of a reported representative ({} for what is no pattern over 1..k; the orbit itself when disconnected)
RepOrbit(P, k) == IF ~RepOK(P, k) THEN {} ELSE IF Connected(P, k) THEN ClassOf(P, k) ELSE Orbit(P, k)
UVariant(v, orb, i, k) ==          \* orb[j] = class of the j-th reported representative
  LET S    == DecState(v.st)
      sh   == Shown(HEdges(S), S.nodes, k)
      obs  == v.obs
      reps == [j \in DOMAIN obs |-> DecPat(obs[j][1])]
  IN {<<Name("class_count", i), Len(obs) = Cardinality(ClassSet(k))>>,
      <<Name("representatives_connected", i), \A j \in DOMAIN obs : RepOK(reps[j], k) /\ Connected(reps[j], k)>>,
      \* pairwise non-isomorphic and every class present: as many entries as classes, and their classes are all of them
      <<Name("classes_covered_once", i), Len(obs) = Cardinality(ClassSet(k)) /\ {orb[j] : j \in DOMAIN obs} = ClassSet(k)>>,
      <<Name("counts_equal_census", i), \A j \in DOMAIN obs : obs[j][2] = CountIn(sh, orb[j])>>}

UCase(c) ==
  LET k == c.k
      H == [i \in DOMAIN c.vs |-> HEdges(DecState(c.vs[i].st))]
      orbs == [i \in DOMAIN c.vs |-> [j \in DOMAIN c.vs[i].obs |-> RepOrbit(DecPat(c.vs[i].obs[j][1]), k)]]
      \* reported census as a set of <<class, count>>
      rep == [i \in DOMAIN c.vs |-> {<<orbs[i][j], c.vs[i].obs[j][2]>> : j \in DOMAIN c.vs[i].obs}]
  IN (UNION {UVariant(c.vs[i], orbs[i], i, k) : i \in DOMAIN c.vs})
     \cup {\* the harness built what it says: all variants agree on the hyperedges of size 2..k
           <<Name("harness_variants_related", 0), \A i \in DOMAIN c.vs : Core(H[i], k) = Core(H[1], k)>>,
           \* ... so labels, insertion history and larger hyperedges must not change the census
           <<Name("census_same_across_variants", 0),
             \A i \in DOMAIN c.vs : (Core(H[i], k) = Core(H[1], k)) => rep[i] = rep[1]>>}

(* ---- directed -------------------------------------------------------------------------- *)
DecDPat(sq) == {<<Rng(e[1]), Rng(e[2])>> : e \in Rng(sq)}    \* <<<<<<1>>, <<2,3>>>>, ...>> -> {<<{1},{2,3}>>, ...}
DEdgeOK(e, k) == e[1] # {} /\ e[2] # {} /\ e[1] \cap e[2] = {} /\ (e[1] \cup e[2]) \subseteq 1..k
DPatOK(sq, k) == /\ \A e \in Rng(sq) : Len(e) = 2 /\ ~IsDup(e[1]) /\ ~IsDup(e[2])
                 /\ ~IsDup(sq)
                 /\ \A e \in DecDPat(sq) : DEdgeOK(e, k)
DCore(D, k) == {e \in D : Cardinality(DNodes(e)) <= k}
\* reported census as a set of <<canonical pattern of the class, count>>
DReported(obs, k) == {<<IF DPatOK(obs[j][1], k) THEN Canon(DecDPat(obs[j][1]), k) ELSE {}, obs[j][2]>> : j \in DOMAIN obs}

DVariant(v, i, k) ==
  LET S    == DecState(v.st)
      D    == DEdges(S)
      obs  == v.obs
      ok   == [j \in DOMAIN obs |-> DPatOK(obs[j][1], k)]
      pats == [j \in DOMAIN obs |-> DecDPat(obs[j][1])]
      shD  == [X \in KSubsets(S.nodes, k) |-> DPattern(D, X)]
      occ(j) == LET orb == DOrbit(pats[j], k) IN Cardinality({X \in DOMAIN shD : shD[X] \in orb})
      anchor == DAnchorCensus(D, k)
  IN {\* the reported tuple is the minimum, over the node permutations, of the sorted-tuple encoding
      <<Name("dir_pattern_canonical", i),
        \A j \in DOMAIN obs : ok[j] /\ obs[j][1] = PatEnc(pats[j]) /\ IsCanonicalDef(pats[j], k)>>,
      <<Name("dir_class_reported_once", i), \A j1, j2 \in DOMAIN obs : (j1 # j2) => (obs[j1][1] # obs[j2][1])>>,
      \* a count never exceeds the number of node sets that show the pattern
      <<Name("dir_count_at_most_occurrences", i), \A j \in DOMAIN obs : ok[j] => (0 <= obs[j][2] /\ obs[j][2] <= occ(j))>>,
      \* INFORMATION ONLY (not promised by the statement): the census is the enumeration the anchors describe
      <<Name("info_dir_anchor_enumeration", i),
        /\ \A j \in DOMAIN obs : ok[j]
        /\ {<<pats[j], obs[j][2]>> : j \in DOMAIN obs} = {<<P, anchor[P]>> : P \in DOMAIN anchor}>>}

DCase(c) ==
  LET k == c.k
      D == [i \in DOMAIN c.vs |-> DEdges(DecState(c.vs[i].st))]
      rep == [i \in DOMAIN c.vs |-> DReported(c.vs[i].obs, k)]
  IN (UNION {DVariant(c.vs[i], i, k) : i \in DOMAIN c.vs})
     \cup {<<Name("harness_variants_related", 0), \A i \in DOMAIN c.vs : DCore(D[i], k) = DCore(D[1], k)>>,
           <<Name("dir_census_same_across_variants", 0),
             \A i \in DOMAIN c.vs : (DCore(D[i], k) = DCore(D[1], k)) => rep[i] = rep[1]>>}

C11Clauses(c) == IF Kind = "dir" THEN DCase(c) ELSE UCase(c)
R == INSTANCE CaseRunner WITH Clauses <- C11Clauses
TInit == R!CInit
TNext == R!CNext
=============================================================================
