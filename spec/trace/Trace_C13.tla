---------------------------- MODULE Trace_C13 ----------------------------
(***************************************************************************)
(* C13: validator for runs of configuration_model (Kind = "hg") and        *)
(* directed_configuration_model (Kind = "dir").                            *)
(*                                                                         *)
(* A trace is one call:                                                    *)
(*   call    input hypergraph (abstract projection), arguments, and - when *)
(*           the hook is present - the initial chain                       *)
(*   step /  one logged chain step (only with HGX_VERIF hooks):            *)
(*   swap    i, j, f1, f2, g1, g2   /   role, id1, id2, n1, n2             *)
(*   return  the returned hypergraph (abstract projection)                 *)
(*                                                                         *)
(* PROPERTY clauses (decide C13; black box): CMPost / CMPostDir of Chains  *)
(* on the (input, output) pair, evaluated at `return`.                     *)
(* MODEL clauses (names start with "model_"; bind the code to Chains.tla): *)
(* every logged step must be a Reshuffle / Swap step of the specification  *)
(* from the chain state reached so far (the logged outcome must be ONE OF  *)
(* the allowed outcomes) and the output must be Emit of the last chain.    *)
(* The chain is advanced with the LOGGED outcome (resynchronisation).      *)
(* Never disabled, never guesses: one RJ line per event with a failing     *)
(* clause, DONE <events> <bad> at the end.                                 *)
(***************************************************************************)
EXTENDS Dec, Chains, Json, IOUtils
VARIABLES ti, li, tr, nbad, nev
tvars == <<ti, li, tr, nbad, nev>>

Traces == JsonDeserialize(IOEnv.TRACE_FILE).traces
Idle == [on |-> FALSE]

DecChain(ch) ==
  IF Kind = "dir" THEN [i \in DOMAIN ch |-> [s |-> Rng(ch[i].s), t |-> Rng(ch[i].t)]]
  ELSE [i \in DOMAIN ch |-> Rng(ch[i])]
NodeSets(S) == {k.s : k \in Keys(S)}
Once(sq) == Len(sq) = Cardinality(Rng(sq))

---------------------------------------------------------------------------
(* call: Load *)
CallClauses(ev) ==
  IF ~ev.haschain THEN {} ELSE
  LET P == DecState(ev.inp)  ch == DecChain(ev.chain) IN
  IF Kind = "dir"
  THEN {<<"model_chain_lists_the_input", /\ {Key(ch[i].s, ch[i].t, 0) : i \in DOMAIN ch} = Keys(P)
                                          /\ Len(ch) = Cardinality(Keys(P))>>}
  ELSE {<<"model_chain_lists_the_input", /\ Rng(ch) = Selected(NodeSets(P), ev.args.size)
                                          /\ Len(ch) = Cardinality(Selected(NodeSets(P), ev.args.size))>>}
AfterCall(ev) ==
  [on |-> ev.haschain, c |-> IF ev.haschain THEN DecChain(ev.chain) ELSE <<>>,
   P |-> DecState(ev.inp), a |-> ev.args, ns |-> 0, nt |-> 0]

(* step: Propose + Reshuffle + Write *)
StepIdx(ev) == ev.i + 1 \in DOMAIN tr.c /\ ev.j + 1 \in DOMAIN tr.c
StepClauses(ev) ==
  LET i == ev.i + 1  j == ev.j + 1  g1 == Rng(ev.g1)  g2 == Rng(ev.g2) IN
  {<<"model_step_indices_in_chain", StepIdx(ev)>>,
   <<"model_step_reads_the_chain", StepIdx(ev) => Rng(ev.f1) = tr.c[i] /\ Rng(ev.f2) = tr.c[j]>>,
   <<"model_step_same_size_when_detailed", StepIdx(ev) => Proposable(tr.c, tr.a.detailed, i, j)>>,
   <<"model_step_is_a_reshuffle", StepIdx(ev) => ReshuffleRel(tr.c[i], tr.c[j], g1, g2)>>,
   <<"model_step_lists_nodes_once", Once(ev.g1) /\ Once(ev.g2)>>}
AfterStep(ev) ==
  IF StepIdx(ev) THEN [tr EXCEPT !.c = Write(tr.c, ev.i + 1, ev.j + 1, Rng(ev.g1), Rng(ev.g2)), !.ns = @ + 1]
  ELSE [tr EXCEPT !.ns = @ + 1]

(* swap *)
SwapIdx(ev) == ev.id1 + 1 \in DOMAIN tr.c /\ ev.id2 + 1 \in DOMAIN tr.c
SwapClauses(ev) ==
  {<<"model_swap_indices_in_chain", SwapIdx(ev)>>,
   <<"model_swap_is_allowed", SwapIdx(ev) => SwapOK(tr.c, ev.role, ev.id1 + 1, ev.id2 + 1, ev.n1, ev.n2)>>,
   <<"model_sources_before_targets", ev.role = "s" => tr.nt = 0>>,
   <<"model_swap_budget", (IF ev.role = "s" THEN tr.ns ELSE tr.nt) < 10 * Len(tr.c)>>}
AfterSwap(ev) ==
  LET t1 == IF SwapIdx(ev) THEN [tr EXCEPT !.c = SwapWrite(tr.c, ev.role, ev.id1 + 1, ev.id2 + 1, ev.n1, ev.n2)] ELSE tr
  IN IF ev.role = "s" THEN [t1 EXCEPT !.ns = @ + 1] ELSE [t1 EXCEPT !.nt = @ + 1]

(* return: the property, and Emit *)
ReturnClauses(ev) ==
  LET P == tr.P  Q == DecState(ev.out) IN
  {<<"returns_a_hypergraph", ev.ok>>}
  \cup (IF ~ev.ok THEN {}
        ELSE IF Kind = "dir" THEN CMPostDir(P, Q)
        ELSE CMPost(P, Q, [detailed |-> tr.a.detailed, size |-> tr.a.size]))
  \cup (IF ~(ev.ok /\ tr.on) THEN {}
        ELSE IF Kind = "dir" THEN {<<"model_output_is_emit", Keys(Q) = DirEmit(tr.c)>>}
        ELSE {<<"model_output_is_emit", NodeSets(Q) = EmitEdges(tr.c, Untouched(NodeSets(P), tr.a.size))>>,
              <<"model_one_step_per_n_steps", tr.ns = tr.a.n_steps>>})

Judge(ev) ==
  LET cl == CASE ev.ev = "call" -> CallClauses(ev)
              [] ev.ev = "step" -> IF tr.on THEN StepClauses(ev) ELSE {<<"model_step_outside_a_call", FALSE>>}
              [] ev.ev = "swap" -> IF tr.on THEN SwapClauses(ev) ELSE {<<"model_step_outside_a_call", FALSE>>}
              [] ev.ev = "return" -> ReturnClauses(ev)
              [] OTHER -> {<<"unknown_event", FALSE>>}
  IN {x[1] : x \in {y \in cl : ~y[2]}}
After(ev) ==
  CASE ev.ev = "call" -> AfterCall(ev)
    [] ev.ev = "step" -> IF tr.on THEN AfterStep(ev) ELSE tr
    [] ev.ev = "swap" -> IF tr.on THEN AfterSwap(ev) ELSE tr
    [] OTHER -> Idle

TInit == ti = 1 /\ li = 1 /\ tr = Idle /\ nbad = 0 /\ nev = 0
TNext ==
  /\ ti <= Len(Traces)
  /\ IF li > Len(Traces[ti])
     THEN /\ ti' = ti + 1 /\ li' = 1 /\ tr' = Idle /\ UNCHANGED <<nbad, nev>>
          /\ (ti < Len(Traces) \/ PrintT("DONE " \o ToString(nev) \o " " \o ToString(nbad)))
     ELSE LET ev == Traces[ti][li]
              failed == Judge(ev)
          IN /\ tr' = After(ev)
             /\ li' = li + 1 /\ ti' = ti /\ nev' = nev + 1
             /\ nbad' = IF failed = {} THEN nbad ELSE nbad + 1
             /\ (failed = {} \/ PrintT("RJ " \o ToString(<<ti, li, failed>>)))
=============================================================================
