---------------------------- MODULE Trace_C08B ----------------------------
(* C08 on large structured inputs: what utils/cc.py, utils/visits.py and       *)
(* measures/degree.py (methods of Hypergraph and module-level functions)       *)
(* returned on a real object built from construction parameters ps, decided    *)
(* against the block formulas of Blocks.tla (justified on small parameters by  *)
(* MC_Blocks against the general definitions of Derive.tla).  No general       *)
(* definition (Components, CompOf, ...) is evaluated here.                     *)
(*                                                                             *)
(* A case:  ps     the parameters, a sequence of [shape, n, p]                 *)
(*          nodes  get_nodes() as spec node ids (0 = a label that is no node)  *)
(*          edges  get_edges() as sequences of node ids;  sizes  get_sizes()   *)
(*          obs    one record per filter f = <<"none",0>> | <<"eq",z>>; every  *)
(*                 value is logged twice: <<by method, by module function>>    *)
(*          raised names of calls that raised (every call logged is a valid    *)
(*                 one: existing node, one of order= / size=)                  *)
EXTENDS Dec, Blocks
VARIABLES ci, nbad

FOf(r) == <<r.f[1], r.f[2]>>
NoDup(sq) == Len(sq) = Cardinality(Rng(sq))
Count(sq, x) == Cardinality({i \in DOMAIN sq : sq[i] = x})
SeqSum2(sq) == LET V(j) == sq[j][1] * sq[j][2] IN SumSet(V, DOMAIN sq)

ObsClauses(ps, N, r) ==
  LET f   == FOf(r)
      BC  == BComponents(ps, f)
      nc  == BNumComponents(ps, f)
      lg  == BLargest(ps, f)
      iso == BIsolated(ps, f)
      DF  == [v \in 1..N |-> BDegAt(ps, v, f)]
      nof == f[1] = "none"
  IN
  {<<"connected_components", \A x \in Rng(r.comps) :
        /\ {Rng(c) : c \in Rng(x)} = BC
        /\ Len(x) = nc
        /\ \A c \in Rng(x) : NoDup(c)
        /\ nof => {Rng(c) : c \in Rng(x)} = B1Components(ps) /\ Len(x) = Len(ps)>>,
   <<"num_connected_components", \A x \in Rng(r.num) : x = nc /\ (nof => x = Len(ps))>>,
   <<"is_connected", \A x \in Rng(r.conn) : x = (nc = 1) /\ (nof => x = B1Connected(ps))>>,
   <<"largest_component", \A x \in Rng(r.largest) : Rng(x) \in BC /\ Len(x) = lg /\ NoDup(x)>>,
   <<"largest_component_size", \A x \in Rng(r.largest_size) : x = lg /\ (nof => x = B1Largest(ps))>>,
   <<"isolated_nodes", \A x \in Rng(r.isolated) :
        /\ Rng(x) = iso /\ NoDup(x) /\ Len(x) = BNumIsolated(ps, f)
        /\ nof => Rng(x) = B1Isolated(ps)>>,
   <<"node_connected_component", \A p \in Rng(r.probes) : \A x \in Rng(p.ncc) :
        /\ Rng(x) = BCompOf(ps, p.v, f) /\ NoDup(x)
        /\ nof => Rng(x) = BNodes(ps, p.block)>>,
   <<"is_isolated", \A p \in Rng(r.probes) : \A x \in Rng(p.iso) : x = (p.v \in iso)>>,
   <<"visits_bfs", \A p \in Rng(r.probes) : Rng(p.bfs) = BCompOf(ps, p.v, f) /\ NoDup(p.bfs)>>,
   <<"visits_dfs", \A p \in Rng(r.probes) : Rng(p.dfs) = BCompOf(ps, p.v, f) /\ NoDup(p.dfs)>>,
   <<"degree", \A p \in Rng(r.probes) : \A x \in Rng(p.deg) : x = DF[p.v]>>,
   <<"degree_sequence", \A x \in Rng(r.degseq) :
        /\ Len(x) = N /\ {q[1] : q \in Rng(x)} = 1..N
        /\ \A q \in Rng(x) : q[1] \in 1..N => q[2] = DF[q[1]]>>,
   <<"degree_distribution", \A x \in Rng(r.degdist) :
        /\ {q[1] : q \in Rng(x)} = Rng(DF) /\ Len(x) = Cardinality(Rng(DF))
        /\ \A q \in Rng(x) : q[2] = Cardinality({v \in 1..N : DF[v] = q[1]})
        /\ SeqSum2(x) = DegTotalAll(ps, f)>>}                      \* degrees sum to the total size

C08BClauses(c) ==
  LET ps == c.ps  N == Total(ps) IN
  {<<"construction",
       /\ WFParams(ps)
       /\ Rng(c.nodes) = 1..N /\ Len(c.nodes) = N
       /\ {Rng(e) : e \in Rng(c.edges)} = ExpandEdges(ps)
       /\ Len(c.edges) = NumEdgesAll(ps) /\ \A e \in Rng(c.edges) : NoDup(e)>>,
   <<"get_sizes", /\ Len(c.sizes) = NumEdgesAll(ps)
                  /\ \A z \in Rng(c.sizes) \cup SizesAll(ps) : Count(c.sizes, z) = SizeCountAll(ps, z)>>,
   <<"no_exception", c.raised = <<>> >>}
  \cup UNION {ObsClauses(ps, N, c.obs[i]) : i \in DOMAIN c.obs}

R == INSTANCE CaseRunner WITH Clauses <- C08BClauses
TInit == R!CInit
TNext == R!CNext
=============================================================================
