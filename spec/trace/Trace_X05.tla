---------------------------- MODULE Trace_X05 ----------------------------
(* X05: the tables returned by _get_bipartite_representation and get_svc       *)
(* against spec/ext/SVC.tla.  A case =                                          *)
(*   [id, kind, st, ok, shape, bip, nbip, mn, mx, ia, orders]                    *)
(* kind "bip":  bip = the rows [node, index] of the bipartite table (node -1 =   *)
(*              not a label of the hypergraph), nbip = their number              *)
(* kind "svc":  the call get_svc(min_order = mn, max_order = mx (0: none),       *)
(*              alpha = 1/ia); orders = Seq([n, exact, den, rows]), one entry    *)
(*              per group size present in the table, a row =                     *)
(*              [g : Seq(node), w (-1: no such column), fdr, rank, pnum, pok]:   *)
(*   rank  dense rank of the returned p-value among the rows of its order        *)
(*   pnum  (exact regime only) the returned p-value times den = N^(n*N), pok =   *)
(*         "the returned float is pnum/den"                                      *)
(* TLC decides, on every instance: the orders, the tested groups of each order   *)
(* GIVEN the groups the table itself flags as validated at larger orders, the    *)
(* co-occurrence counts, the lower-set property; in the exact regime also the    *)
(* p-values and the validated flags GIVEN the groups tested.  Outside it TLC     *)
(* prints the parameters (w, N, K_i, na) of every row ("PAR ...") for the        *)
(* harness to evaluate the same tail / threshold definitions over Fractions.     *)
EXTENDS Dec, SVC, Json
VARIABLES ci, nbad

GS(r) == Rng(r.g)
KBagG(S, g) == LET vs == {SvcK(S, i) : i \in g} IN [v \in vs |-> Cardinality({i \in g : SvcK(S, i) = v})]

BipClauses(c, S) ==
  LET R == {<<r[1], r[2]>> : r \in Rng(c.bip)} IN
  IF ~c.ok THEN {<<"bip_returns", FALSE>>} ELSE
  {<<"bip_one_row_per_node_of_every_occurrence",
       /\ Len(c.bip) = c.nbip /\ Cardinality(R) = Len(c.bip)
       /\ Len(c.bip) = (LET F(k) == Wt(S, k) * KSize(k) IN SumSet(F, Keys(S)))>>,
   <<"bip_indices_are_0_to_N_minus_1", BipIdx(R) = 0..(SvcN(S) - 1)>>,
   <<"bip_every_hyperedge_weight_times", IsBipartite(S, R)>>,
   <<"bip_nodes_are_the_active_nodes", {r[1] : r \in R} = SvcActive(S)>>}

SvcClauses(c, S) ==
  LET J  == DOMAIN c.orders
      T(j) == c.orders[j]
      N  == SvcN(S)
      ords == SvcOrders(S, c.mn, c.mx)
      RowsOf(n) == UNION {Rng(T(j).rows) : j \in {i \in J : T(i).n = n}}
      VHi(n) == {GS(r) : r \in UNION {{x \in Rng(T(j).rows) : x.fdr} : j \in {i \in J : T(i).n > n}}}
      \* rows of table j are n distinct known nodes each, no group twice
      wf == TLCEval([j \in J |-> /\ \A r \in Rng(T(j).rows) : Len(r.g) = T(j).n /\ Cardinality(GS(r)) = T(j).n /\ GS(r) \subseteq S.nodes
                                 /\ Cardinality({GS(r) : r \in Rng(T(j).rows)}) = Len(T(j).rows)])
      exr == TLCEval([j \in J |-> SvcRegime(N, T(j).n, Len(T(j).rows))])
      Ex(j) == wf[j] /\ exr[j] /\ T(j).exact
      Logged(j) == {GS(r) : r \in Rng(T(j).rows)}
      Flagged(j) == {GS(r) : r \in {x \in Rng(T(j).rows) : x.fdr}}
      \* the multiple-testing decision of the statement on the groups the table lists at this order
      P(j) == TLCEval(SvcPValues(S, Logged(j)))
      Agrees(j, ia) == LET M == SvcInvLevel(S, T(j).n, ia) IN OnALevel(P(j), M) \/ Flagged(j) = StepUpValidated(P(j), M)
      dec == TLCEval([j \in J |-> IF ~Ex(j) THEN "skip" ELSE IF Agrees(j, c.ia) THEN "ok"
                                  ELSE IF c.ia # 100 /\ Agrees(j, 100) THEN "alpha_ignored" ELSE "bad"])
      kb == TLCEval([j \in J |-> IF wf[j] THEN TLCEval([i \in DOMAIN T(j).rows |->
                                      <<KBagG(S, GS(T(j).rows[i])), SvcW(S, GS(T(j).rows[i]))>>]) ELSE <<>>])
  IN IF ~c.ok THEN {<<"svc_returns", FALSE>>} ELSE
     IF ~c.shape THEN {<<"svc_table_has_group_pvalue_fdr", FALSE>>} ELSE
     {<<"svc_orders_within_min_and_top", {T(j).n : j \in J} \subseteq ords /\ Cardinality({T(j).n : j \in J}) = Len(c.orders)>>,
      <<"svc_rows_are_groups_of_distinct_nodes_once", \A j \in J : wf[j]>>,
      <<"svc_tested_iff_cooccurring_and_not_inside_validated_core",
        \A n \in ords : {GS(r) : r \in RowsOf(n)} = SvcTestedRel(S, n, VHi(n))>>,
      <<"svc_w_is_cooccurrence_count",
        \A j \in J : wf[j] => \A r \in Rng(T(j).rows) : r.w = -1 \/ r.w = SvcW(S, GS(r))>>,
      <<"svc_harness_regime_agrees", \A j \in J : T(j).exact = exr[j]>>,
      <<"svc_pvalue_is_binomial_tail",
        \A j \in J : Ex(j) =>
            /\ T(j).den = SvcDen(S, T(j).n)
            /\ \A r \in Rng(T(j).rows) : r.pok /\ r.pnum = SvcPNum(S, GS(r))>>,
      <<"svc_validated_iff_below_threshold", \A j \in J : dec[j] # "bad">>,
      <<"svc_alpha_is_the_significance_level", \A j \in J : dec[j] # "alpha_ignored">>,
      <<"svc_validated_is_lower_set",
        \A j \in J : \A r1, r2 \in Rng(T(j).rows) : (r1.fdr /\ ~r2.fdr) => r2.rank >= r1.rank>>,
      <<"svc_pvalue_depends_on_parameters_only",
        \A j \in J : wf[j] => \A i1, i2 \in DOMAIN T(j).rows :
            (kb[j][i1][1] = kb[j][i2][1]) =>
                /\ (kb[j][i1][2] = kb[j][i2][2] => T(j).rows[i1].rank = T(j).rows[i2].rank)
                /\ (kb[j][i1][2] < kb[j][i2][2] => T(j).rows[i1].rank >= T(j).rows[i2].rank)>>,
      <<"emit", \A j \in J : (wf[j] /\ ~exr[j]) =>
            PrintT("PAR " \o ToJson([id |-> c.id, n |-> T(j).n,
                                     par |-> [N |-> N, na |-> SvcNa(S),
                                              rows |-> {<<GS(r), SvcW(S, GS(r)), {<<i, SvcK(S, i)>> : i \in GS(r)}>> : r \in Rng(T(j).rows)}]]))>>}

\* TLC evaluates function constructors lazily (once per application): TLCEval forces the tables that are looked up many times
X05Clauses(c) ==
  LET S0 == DecState(c.st)
      S  == [S0 EXCEPT !.E = TLCEval(S0.E)]
  IN IF c.kind = "bip" THEN BipClauses(c, S) ELSE SvcClauses(c, S)

R == INSTANCE CaseRunner WITH Clauses <- X05Clauses
TInit == R!CInit
TNext == R!CNext
=============================================================================
