---------------------------- MODULE Trace_C16 ----------------------------
(***************************************************************************)
(* C16: batch trace validator for HyMMSBMSampler against Sampler.tla.      *)
(*                                                                         *)
(* Input (TRACE_FILE): {"traces": [run, ...]}; a run is ONE call of        *)
(* sample(...) on a sampler object (a fresh one, or one that has served    *)
(* earlier calls: then flag0 is what it reported just before this call):   *)
(*   mode   "init" | "seqs" | "model" | "partial"                          *)
(*   n, deg (per spec node 1..n), sizes (flattened dim_seq in iteration    *)
(*   order), maxsize, idmap (code index k -> spec node idmap[k+1]),        *)
(*   chain0 (initial_hyg in code indices), ev (events),                    *)
(*   flag0  matching_sequences of the object before the call (optional,    *)
(*          default "none" = fresh object)                                 *)
(* Events, in the order they happened:                                     *)
(*   extract / mcmc / yield   hooks (only with HGX_VERIF=1): MODEL clauses *)
(*        m_*  - the logged outcome must be ONE OF the outcomes the action *)
(*        of Sampler.tla allows from the tracked state                     *)
(*   sample   what the caller got (public API only): PROPERTY clauses =    *)
(*        the conjuncts of SamplerPost + SeedFunctional (twin sampler      *)
(*        built with the same parameters and seed).  With hooks the list   *)
(*        of sampled hyperedges is visible (last yield event + the chain   *)
(*        tracked through the extract/mcmc events): "whenever no two       *)
(*        sampled hyperedges coincided" is then decided on that list, not  *)
(*        only through the number of hyperedges that came out.             *)
(*   end      how many samples each twin produced within the horizon       *)
(* Never disabled, never guesses; after every event the tracked state is   *)
(* the logged one (resynchronisation).                                     *)
(***************************************************************************)
EXTENDS Sampler, Json, IOUtils, TLCExt

VARIABLES ti, li, nbad, nev, remK, todoK, fixedK, lasty
tvars == <<svars, ti, li, nbad, nev, remK, todoK, fixedK, lasty>>

Traces == JsonDeserialize(IOEnv.TRACE_FILE).traces
Has(r, f) == f \in DOMAIN r
SetOf(sq) == SRng(sq)
SetsOf(sq) == [i \in DOMAIN sq |-> SRng(sq[i])]
NoYield == [ok |-> FALSE]
AllSizesAtLeastTwo(cnd) == \A i \in DOMAIN cnd.sizes : cnd.sizes[i] >= 2

\* weighted hypergraph from [[nodes, weight], ...] (first entry wins if a hyperedge is listed twice)
DecW(o) == [e \in {SRng(p[1]) : p \in SRng(o)} |-> (CHOOSE p \in SRng(o) : SRng(p[1]) = e)[2]]
\* nodes_with_deg logged as [[deg, [nodes]], ...] -> function on the code indices 0..n-1 (-1: absent)
RemOf(pairs, n) == [k \in 0..(n - 1) |->
     IF \E p \in SRng(pairs) : k \in SRng(p[2]) THEN (CHOOSE p \in SRng(pairs) : k \in SRng(p[2]))[1] ELSE -1]
ClassesDisjoint(pairs) == \A a, b \in DOMAIN pairs : a # b => SRng(pairs[a][2]) \cap SRng(pairs[b][2]) = {}

CndOf(r) == [mode |-> r.mode, deg |-> [l \in DOMAIN r.deg |-> r.deg[l]], sizes |-> r.sizes, maxsize |-> r.maxsize]
IdMap(r) == [k \in 0..(r.n - 1) |-> r.idmap[k + 1]]

---------------------------------------------------------------------------
(* PROPERTY clauses: one yielded hypergraph, seen through the public API *)
SampleClauses(r, ev) ==
  LET W == DecW(ev.out)   cnd == CndOf(r)   labels == 1..r.n IN
  {<<"weighted", ev.weighted>>,
   <<"integer_weights", ev.wint>>,
   <<"positive_weights", PositiveWeights(W) /\ \A p \in SRng(ev.out) : p[2] >= 1>>,
   <<"no_repeated_hyperedge", Len(ev.out) = Cardinality(DOMAIN W)>>,
   <<"sizes_at_least_two", SizesAtLeastTwo(W) /\ \A p \in SRng(ev.out) : Len(p[1]) >= 2>>,
   <<"sizes_at_most_max", SizesAtMostMax(cnd, W)>>,
   <<"only_known_nodes", KnownNodes(labels, W) /\ SRng(ev.nodes) \subseteq labels>>,
   <<"degree_not_exceeded", Conditioned(cnd, ev.flag) => DegNotExceeded(cnd, W)>>,
   <<"size_count_not_exceeded", r.mode \in {"init", "seqs"} => SizeNotExceeded(cnd, W)>>,
   <<"exact_when_no_coincidence",
        (Conditioned(cnd, ev.flag) /\ TotalsEqual(cnd) /\ NothingLost(cnd, W)) => ExactOut(cnd, W)>>}
  \cup (IF Has(ev, "twin_ok")
        THEN {<<"seed_functional", ev.twin_ok /\ Len(ev.twin) = Len(ev.out) /\ DecW(ev.twin) = W>>} ELSE {})
  \* PROPERTY, hook-assisted reading of "whenever no two sampled hyperedges coincided": neither the list handed
  \* to the weighting step (last yield event) nor the chain tracked from the initial configuration through the
  \* logged moves holds two equal hyperedges.  Nothing else excuses a missing hyperedge: not an earlier sample
  \* that had a coincidence, not a raw weight of "zero" (the statement has no such exemption).
  \cup (IF lasty.ok
        THEN {<<"exact_when_no_coincidence_at_yield",
                  (Conditioned(cnd, ev.flag) /\ TotalsEqual(cnd) /\ AllSizesAtLeastTwo(cnd)
                     /\ lasty.cc /\ NoCoincidence(SetsOf(lasty.list))) => ExactOut(cnd, W)>>}
        ELSE {})
  \* MODEL: the hypergraph is the merge of the logged list under the logged raw weights
  \cup (IF lasty.ok
        THEN {<<"m_yield_out", /\ Len(lasty.w) = Len(lasty.list)
                               /\ Len(lasty.w) = Len(lasty.list) => W = YieldOut(SetsOf(lasty.list), lasty.w, IdMap(r))>>,
              <<"m_final_flag", (r.mode \in {"seqs", "model"}) => ev.flag = (IF flag = "none" THEN "yes" ELSE flag)>>}
        ELSE {})

(* MODEL clauses: hooked steps *)
PadOf(ev) == ev.fdim \/ ~ev.fdeg
ExtractClauses(r, ev) ==
  LET R0 == RemOf(ev.before, r.n)  R1 == RemOf(ev.after, r.n)  c == SetOf(ev.chosen) IN
  {<<"m_extract_dictionary", ClassesDisjoint(ev.before) /\ ClassesDisjoint(ev.after) /\ \A k \in 0..(r.n - 1) : R0[k] >= 0 /\ R1[k] >= 0>>,
   <<"m_extract_pre", remK => R0 = rem>>,
   <<"m_extract_size", todoK => (todo # <<>> /\ ev.size = Head(todo))>>,
   <<"m_extract_pad", r.mode \in {"seqs", "model"} => PadOf(ev)>>,
   <<"m_extract_choice", ExtractOK(R0, ev.size, PadOf(ev), c)>>,
   <<"m_extract_effect", R1 = ExtractRem(R0, c)>>,
   <<"m_extract_flag", ev.flag = ExtractFlag(flag, R0, ev.size)>>,
   <<"m_extract_before_mcmc", chain = <<>> \/ r.mode # "init">>}
McmcIdx(ev) == <<ev.i + 1, ev.j + 1>>
McmcIdxOK(ev) == ev.i + 1 \in DOMAIN chain /\ ev.j + 1 \in DOMAIN chain /\ ev.i # ev.j
McmcClauses(r, ev) ==
  {<<"m_mcmc_indices", McmcIdxOK(ev)>>,
   <<"m_mcmc_old", McmcIdxOK(ev) => chain[ev.i + 1] = SetOf(ev.old1) /\ chain[ev.j + 1] = SetOf(ev.old2)>>,
   <<"m_mcmc_reshuffle", Reshuffle(SetOf(ev.old1), SetOf(ev.old2), SetOf(ev.new1), SetOf(ev.new2))>>,
   <<"m_mcmc_preserves", MovePreserves(SetOf(ev.old1), SetOf(ev.old2), SetOf(ev.new1), SetOf(ev.new2))>>}
Prefix(sq, k) == [i \in 1..(IF k < Len(sq) THEN k ELSE Len(sq)) |-> sq[i]]
Suffix(sq, k) == [i \in 1..(IF k < Len(sq) THEN Len(sq) - k ELSE 0) |-> sq[i + k]]
\* the chain as the design keeps it (invariants SizeCountNeverExceeds, DegNeverExceeds + MatchingMeansExhausted of
\* MC_Sampler): as many hyperedges of every size as asked for, matching or not; every degree used up when matching
FlagAtRun == IF flag = "none" THEN "yes" ELSE flag
YieldClauses(r, ev) ==
  LET L == SetsOf(ev.list)  fx == Suffix(L, Len(chain))  cnd == CndOf(r)  lb == IdMap(r) IN
  {<<"m_yield_chain", Prefix(L, Len(chain)) = chain>>,
   <<"m_yield_size_counts", (r.mode \in {"init", "seqs"} /\ AllSizesAtLeastTwo(cnd)) =>
                               /\ Len(L) = Len(cnd.sizes)
                               /\ \A z \in {Cardinality(L[i]) : i \in DOMAIN L} \cup SRng(cnd.sizes) : ListCount(L, z) = Cnt(cnd.sizes, z)>>,
   <<"m_yield_degrees", (Conditioned(cnd, FlagAtRun) /\ TotalsEqual(cnd) /\ AllSizesAtLeastTwo(cnd)) =>
                               \A k \in DOMAIN lb : ListDeg(L, k) = cnd.deg[lb[k]]>>,
   <<"m_yield_fixed", /\ fixedK => fx = fixed
                      /\ r.mode # "model" => fx = <<>>
                      /\ NoCoincidence(fx) /\ \A i \in DOMAIN fx : Cardinality(fx[i]) = 2>>,
   <<"m_yield_weights", Len(ev.w) = Len(ev.list) /\ \A i \in DOMAIN ev.w : ev.w[i] >= 0>>,
   <<"m_yield_sorted", \A i \in DOMAIN ev.list : \A a, b \in DOMAIN ev.list[i] : a < b => ev.list[i][a] < ev.list[i][b]>>}

---------------------------------------------------------------------------
Start(r) ==
  [rem   |-> IF r.mode = "seqs" THEN [k \in 0..(r.n - 1) |-> r.deg[r.idmap[k + 1]]] ELSE [k \in 0..(r.n - 1) |-> 0],
   remK  |-> r.mode = "seqs",
   todo  |-> IF r.mode = "seqs" THEN r.sizes ELSE <<>>,
   todoK |-> r.mode = "seqs",
   chain |-> IF r.mode = "init" THEN SetsOf(r.chain0) ELSE <<>>,
   flag  |-> IF Has(r, "flag0") THEN r.flag0 ELSE "none",
   lab   |-> IdMap(r)]

TInit ==
  /\ ti = 1 /\ li = 1 /\ nbad = 0 /\ nev = 0
  /\ LET s == Start(Traces[1]) IN
     /\ rem = s.rem /\ remK = s.remK /\ todo = s.todo /\ todoK = s.todoK /\ chain = s.chain /\ lab = s.lab /\ flag = s.flag
  /\ fixed = <<>> /\ fixedK = FALSE /\ lasty = NoYield
  /\ pad = TRUE /\ keys = {} /\ phase = "trace" /\ out = NoOut /\ clean = FALSE

Judge(r, ev) ==
  LET cl == CASE ev.k = "sample"  -> SampleClauses(r, ev)
              [] ev.k = "extract" -> ExtractClauses(r, ev)
              [] ev.k = "mcmc"    -> McmcClauses(r, ev)
              [] ev.k = "yield"   -> YieldClauses(r, ev)
              [] ev.k = "end"     -> {<<"seed_functional", ev.a = ev.b>>}
              [] OTHER            -> {<<"unknown_event", FALSE>>}
  IN {c[1] : c \in {c \in cl : ~c[2]}}

TNext ==
  /\ ti <= Len(Traces)
  /\ UNCHANGED <<pad, keys, phase, out, clean>>
  /\ IF li > Len(Traces[ti].ev)
     THEN /\ ti' = ti + 1 /\ li' = 1 /\ UNCHANGED <<nbad, nev>>
          /\ LET s == Start(Traces[IF ti < Len(Traces) THEN ti + 1 ELSE ti]) IN
             /\ rem' = s.rem /\ remK' = s.remK /\ todo' = s.todo /\ todoK' = s.todoK /\ chain' = s.chain /\ lab' = s.lab
             /\ flag' = s.flag
          /\ fixed' = <<>> /\ fixedK' = FALSE /\ lasty' = NoYield
          /\ IF ti < Len(Traces) THEN TRUE ELSE PrintT("DONE " \o ToString(nev) \o " " \o ToString(nbad))
     ELSE LET r == Traces[ti]  ev == r.ev[li]  failed == Judge(r, ev) IN
          /\ li' = li + 1 /\ ti' = ti /\ nev' = nev + 1 /\ UNCHANGED lab
          /\ nbad' = IF failed = {} THEN nbad ELSE nbad + 1
          /\ IF failed = {} THEN TRUE ELSE PrintT("RJ " \o ToString(<<ti, li, failed>>))
          /\ CASE ev.k = "extract" ->
                  /\ rem' = RemOf(ev.after, r.n) /\ remK' = TRUE
                  /\ todo' = IF todo # <<>> THEN Tail(todo) ELSE todo
                  /\ chain' = Kept(chain, SetOf(ev.chosen))
                  /\ flag' = ev.flag
                  /\ UNCHANGED <<todoK, fixed, fixedK, lasty>>
               [] ev.k = "mcmc" ->
                  /\ chain' = IF McmcIdxOK(ev) THEN Moved(chain, ev.i + 1, ev.j + 1, SetOf(ev.new1), SetOf(ev.new2), ev.acc) ELSE chain
                  /\ UNCHANGED <<rem, remK, todo, todoK, fixed, fixedK, flag, lasty>>
               [] ev.k = "yield" ->
                  /\ chain' = Prefix(SetsOf(ev.list), Len(chain))
                  /\ fixed' = Suffix(SetsOf(ev.list), Len(chain)) /\ fixedK' = TRUE
                  /\ lasty' = [ok |-> TRUE, list |-> ev.list, w |-> ev.w, cc |-> NoCoincidence(chain)]
                  /\ UNCHANGED <<rem, remK, todo, todoK, flag>>
               [] OTHER ->
                  /\ lasty' = NoYield
                  /\ UNCHANGED <<rem, remK, todo, todoK, chain, fixed, fixedK, flag>>
TSpec == TInit /\ [][TNext]_tvars
=============================================================================
