---------------------------- MODULE Trace_C06R ----------------------------
(* C06, file readers: the object built by load_hypergraph(".hgr") / read_hif  *)
(* against ParseHgr / ReadHif (Persist.tla) of the abstract file it was given. *)
EXTENDS Dec, Persist
VARIABLES ci, nbad

HgrClauses(c) ==
  LET P  == ParseHgr(c.lines)
      es == Rng(c.st.edges)
      NS(e) == Rng(e.k.s)
  IN {<<"hgr_file_is_valid_and_covered", HgrCovered(c.lines)>>,
      <<"hgr_reader_accepts_valid_file", c.ok>>,
      <<"hgr_exactly_listed_hyperedges",
        (c.ok /\ HgrCovered(c.lines)) =>
            /\ {NS(e) : e \in es} = DOMAIN P
            /\ Len(c.st.edges) = Cardinality(DOMAIN P)
            /\ \A e \in es : Len(e.k.s) = Cardinality(NS(e))>>,
      <<"hgr_weights",
        (c.ok /\ HgrCovered(c.lines)) => \A e \in es : NS(e) \in DOMAIN P => e.w = P[NS(e)]>>}

HifClauses(c) ==
  LET All(R, b, f)  == HifEdgesOK(R, b, f) /\ HifNodeRecsOK(R, b, f) /\ HifEdgeRecsOK(R, b, f) /\ HifIncRecsOK(R, b, f)
      Str(R, b, f)  == HifEdgesOK(R, b, f)
      NRec(R, b, f) == HifEdgesOK(R, b, f) /\ HifNodeRecsOK(R, b, f)
      ERec(R, b, f) == HifEdgesOK(R, b, f) /\ HifEdgeRecsOK(R, b, f)
      IRec(R, b, f) == HifEdgesOK(R, b, f) /\ HifIncRecsOK(R, b, f)
      go == c.ok /\ HifCovered(c.doc)
      whole == go => HifMatches(c.doc, c.built, All)
  IN {<<"hif_document_is_covered", HifCovered(c.doc)>>,
      <<"hif_reader_accepts_document", c.ok>>,
      <<"hif_object_is_ReadHif", whole>>}
     \cup (IF whole THEN {}          \* diagnostics only: which part of ReadHif the object misses
          ELSE {<<"hif_one_hyperedge_per_incidence_set", HifMatches(c.doc, c.built, Str)>>,
                <<"hif_node_records", HifMatches(c.doc, c.built, NRec)>>,
                <<"hif_hyperedge_records", HifMatches(c.doc, c.built, ERec)>>,
                <<"hif_incidence_records", HifMatches(c.doc, c.built, IRec)>>})

C06RClauses(c) == IF c.kind = "hgr" THEN HgrClauses(c) ELSE HifClauses(c)
R == INSTANCE CaseRunner WITH Clauses <- C06RClauses
TInit == R!CInit
TNext == R!CNext
=============================================================================
