---------------------------- MODULE Trace_C09 ----------------------------
(* C09: matrices / tensors returned by hypergraphx.linalg against Matrices.tla.   *)
(* A logged matrix is a record  [M : rows of integers, shape : <<R, C>>,           *)
(* map : <<<<row index (0-based), node>>, ...>>]  or  [raised : TRUE] when the     *)
(* call raised.  The mapping is only required to be a bijection rows <-> nodes;    *)
(* incidence columns are matched to the hyperedges as a bag.                       *)
EXTENDS Dec, Matrices
VARIABLES ci, nbad

\* DecState of Dec.tla (the same value), decoding every logged hyperedge once: the hub inputs have hundreds of them
DecStateL(j) ==
  LET ps == {<<DecKey(e.k), e>> : e \in Rng(j.edges)}
  IN [nodes |-> Rng(j.nodes),
      E     |-> [k \in {p[1] : p \in ps} |-> LET e == (CHOOSE p \in ps : p[1] = k)[2] IN [w |-> e.w, md |-> e.md]],
      nmd   |-> Pairs2Fun(j.nmd),
      hmd   |-> j.hmd,
      wtd   |-> j.wtd]

Ret(m)  == ~Has(m, "raised")
NR(m)   == m.shape[1]
NC(m)   == m.shape[2]
Shaped(m) == Len(m.M) = NR(m) /\ \A i \in 1..NR(m) : Len(m.M[i]) = NC(m)
MapNodes(m) == {p[2] : p \in Rng(m.map)}
\* the returned dictionary is a bijection between the row indices 0..R-1 and the node set X
MapOK(m, X) == /\ Len(m.map) = NR(m)
               /\ {p[1] : p \in Rng(m.map)} = 0..(NR(m) - 1)
               /\ MapNodes(m) = X /\ Cardinality(X) = NR(m)
NodeAt(mp, i) == (CHOOSE p \in Rng(mp) : p[1] = i - 1)[2]

\* node x node matrix equal to F under the mapping mp
SquareIs(m, mp, F(_, _)) ==
  /\ Shaped(m) /\ NR(m) = NC(m)
  /\ \A i, j \in 1..NR(m) : m.M[i][j] = F(NodeAt(mp, i), NodeAt(mp, j))
Symmetric(m)   == \A i, j \in 1..NR(m) : m.M[i][j] = m.M[j][i]
RECURSIVE SeqSum(_, _)
SeqSum(sq, i)  == IF i > Len(sq) THEN 0 ELSE sq[i] + SeqSum(sq, i + 1)
ZeroRowSums(m) == \A i \in 1..NR(m) : SeqSum(m.M[i], 1) = 0

\* node x hyperedge matrix: the bag of its columns, each read as <<member set, set of non-zero values>>
ColSupport(m, j) == {i \in 1..NR(m) : m.M[i][j] # 0}
\* a bag (value -> multiplicity) of the second components of a set of <<index, value>> pairs; the pairs are built
\* once, so every column and every hyperedge is read once (the hub inputs have hundreds of them)
BagOfPairs(ps) == [v \in {p[2] : p \in ps} |-> Cardinality({p \in ps : p[2] = v})]
ColsBag(m) == BagOfPairs({<<j, <<{NodeAt(m.map, i) : i \in ColSupport(m, j)},
                                 {m.M[i][j] : i \in ColSupport(m, j)}>>>> : j \in 1..NC(m)})
KeysBag(K, W(_)) == BagOfPairs({<<k, <<KN(k), {W(k)}>>>> : k \in K})
IncidenceIs(m, K, W(_)) == Shaped(m) /\ ColsBag(m) = KeysBag(K, W)

\* the three standard clauses of a matrix carrying its own mapping over the node set X
Std(name, m, X, Entries) ==
  {<<name \o ":returned", Ret(m)>>,
   <<name \o ":mapping_bijection", Ret(m) => MapOK(m, X)>>,
   <<name \o ":entries", (Ret(m) /\ MapOK(m, X)) => Entries>>}

\* hyperedge x hyperedge matrix; the hyperedge numbering is the listing order of get_edges(); any
\* other consistent numbering is accepted as well (searched only when the positional reading fails)
DualPos(m, ks) == \A i, j \in 1..Len(ks) : m.M[i][j] = Dual(ks[i], ks[j])
DualIs(m, ks) ==
  /\ Shaped(m) /\ NR(m) = Len(ks) /\ NC(m) = Len(ks)
  /\ \/ DualPos(m, ks)
     \/ Len(ks) <= 6 /\ \E p \in Permutations(1..Len(ks)) : DualPos(m, [i \in 1..Len(ks) |-> ks[p[i]]])

HgClauses(c) ==
  LET S == DecStateL(c.st)
      W(k) == S.E[k].w
      U(k) == 1
      A(n, m) == Adj(S, n, m)
  IN  Std("binary_incidence", c.binc, S.nodes, IncidenceIs(c.binc, Keys(S), U))
 \cup Std("incidence", c.winc, S.nodes, IncidenceIs(c.winc, Keys(S), W))
 \cup Std("adjacency", c.adj, S.nodes, SquareIs(c.adj, c.adj.map, A))
 \cup (IF ~Has(c, "dual") THEN {} ELSE      \* not logged for the hub inputs (hundreds of hyperedges)
      {<<"dual:returned", Ret(c.dual)>>,
       <<"dual:entries", LET ks == DecKeys(c.edges) IN
            (Ret(c.dual) /\ Rng(ks) = Keys(S) /\ Len(ks) = Cardinality(Keys(S))) => DualIs(c.dual, ks)>>})

\* per-order variants (logged for unweighted hypergraphs only)
OrderClauses(c) ==
  LET S == DecStateL(c.st)
      U(k) == 1
      All(P(_)) == \A r \in Rng(c.byorder) : P(r)
      \* K = OfOrder(S, r.d) is evaluated once per matrix:  AdjD(S, d, n, m) = AdjK(K, n, m),  DegD(S, d, n) = DegK(K, n),
      \* LapD(S, d, n, m) = LapK(K, d, n, m)  by their definitions in Matrices.tla
      P1(r) == Ret(r.incF) /\ Ret(r.incT)
      P2(r) == /\ Ret(r.incF) => MapOK(r.incF, NodesOfKeys(OfOrder(S, r.d)))
               /\ Ret(r.incT) => MapOK(r.incT, S.nodes)
      P3(r) == LET K == OfOrder(S, r.d) IN
               /\ (Ret(r.incF) /\ MapOK(r.incF, NodesOfKeys(K))) => IncidenceIs(r.incF, K, U)
               /\ (Ret(r.incT) /\ MapOK(r.incT, S.nodes)) => IncidenceIs(r.incT, K, U)
      P4(r) == Ret(r.adj)
      P5(r) == Ret(r.adj) => MapOK(r.adj, S.nodes)
      P6(r) == (Ret(r.adj) /\ MapOK(r.adj, S.nodes)) =>
                  LET K == OfOrder(S, r.d) F(n, m) == AdjK(K, n, m) IN SquareIs(r.adj, r.adj.map, F)
      OKAdj(r) == Ret(r.adj) /\ MapOK(r.adj, S.nodes)
      P7(r) == OKAdj(r) => Ret(r.deg)
      P8(r) == (OKAdj(r) /\ Ret(r.deg)) =>
                  LET K == OfOrder(S, r.d) F(n, m) == IF n = m THEN DegK(K, n) ELSE 0 IN SquareIs(r.deg, r.adj.map, F)
      P9(r) == Ret(r.lap)
      P10(r) == (OKAdj(r) /\ Ret(r.lap)) =>
                  LET K == OfOrder(S, r.d) F(n, m) == LapK(K, r.d, n, m) IN SquareIs(r.lap, r.adj.map, F)
      P11(r) == Ret(r.lap) => (Shaped(r.lap) /\ NR(r.lap) = NC(r.lap) /\ Symmetric(r.lap) /\ ZeroRowSums(r.lap))
      \* the identity between the three returned matrices, entry by entry
      P12(r) == (Ret(r.lap) /\ Ret(r.deg) /\ Ret(r.adj) /\ Shaped(r.lap) /\ Shaped(r.deg) /\ Shaped(r.adj)
                 /\ r.lap.shape = r.adj.shape /\ r.deg.shape = r.adj.shape) =>
                  \A i \in 1..NR(r.lap), j \in 1..NC(r.lap) : r.lap.M[i][j] = r.d * r.deg.M[i][j] - r.adj.M[i][j]
  IN IF ~Has(c, "byorder") THEN {} ELSE
     {<<"incidence_by_order:returned", All(P1)>>,
      <<"incidence_by_order:mapping_bijection", All(P2)>>,
      <<"incidence_by_order:entries", All(P3)>>,
      <<"adjacency_by_order:returned", All(P4)>>,
      <<"adjacency_by_order:mapping_bijection", All(P5)>>,
      <<"adjacency_by_order:entries", All(P6)>>,
      <<"degree_matrix:returned", All(P7)>>,
      <<"degree_matrix:entries", All(P8)>>,
      <<"laplacian:returned", All(P9)>>,
      <<"laplacian:entries", All(P10)>>,
      <<"laplacian:symmetric_zero_row_sums", All(P11)>>,
      <<"laplacian:is_d_times_degree_minus_adjacency", All(P12)>>}

LapAllClauses(c) ==
  LET S == DecStateL(c.st) IN
  IF ~Has(c, "lapall") THEN {} ELSE
  {<<"laplacians_all_orders:returned", Ret(c.lapall)>>,
   \* "all orders": at least every order >= 1 that has a hyperedge, each listed once
   <<"laplacians_all_orders:orders", Ret(c.lapall) =>
        /\ {d \in 1..(MaxSize(S) - 1) : OfOrder(S, d) # {}} \subseteq {r.d : r \in Rng(c.lapall.mats)}
        /\ Cardinality({r.d : r \in Rng(c.lapall.mats)}) = Len(c.lapall.mats)>>,
   <<"laplacians_all_orders:entries", (Ret(c.lapall) /\ Ret(c.adj) /\ MapOK(c.adj, S.nodes)) =>
        \A r \in Rng(c.lapall.mats) : LET K == OfOrder(S, r.d) F(n, m) == LapK(K, r.d, n, m) IN SquareIs(r, c.adj.map, F)>>}

\* adjacency tensor: node label i (0..N-1) is the spec node i + 1
TensorClauses(c) ==
  LET S == DecStateL(c.st) IN
  IF ~Has(c, "tensor") THEN {} ELSE
  {<<"tensor:returned", Ret(c.tensor)>>,
   <<"tensor:shape", Ret(c.tensor) => /\ Len(c.tensor.shape) = TensorRank(S)
                                       /\ \A i \in 1..Len(c.tensor.shape) : c.tensor.shape[i] = Cardinality(S.nodes)>>,
   <<"tensor:entries", Ret(c.tensor) =>
        /\ {[i \in 1..Len(ix) |-> ix[i] + 1] : ix \in Rng(c.tensor.nz)} = Tensor(S)
        /\ \A v \in Rng(c.tensor.vals) : v = 1>>}

TempClauses(c) ==
  LET S == DecStateL(c.st) IN
  {<<"temporal_adjacency:returned", Ret(c.tadj)>>,
   <<"temporal_adjacency:times", Ret(c.tadj) =>
        /\ Times(S) \subseteq {r.t : r \in Rng(c.tadj.mats)}
        /\ Cardinality({r.t : r \in Rng(c.tadj.mats)}) = Len(c.tadj.mats)>>,
   <<"temporal_adjacency:mapping_bijection", Ret(c.tadj) => \A r \in Rng(c.tadj.mats) :
        /\ MapOK(r, MapNodes(r))
        /\ NodesOfKeys(KeysAt(S, r.t)) \subseteq MapNodes(r) /\ MapNodes(r) \subseteq S.nodes>>,
   <<"temporal_adjacency:entries", Ret(c.tadj) => \A r \in Rng(c.tadj.mats) :
        MapOK(r, MapNodes(r)) => LET F(n, m) == TempAdj(S, r.t, n, m) IN SquareIs(r, r.map, F)>>}

\* non-integer weights: the harness sends weights and entries multiplied by 4 (quarters), so that
\* "the hyperedge's weight in the weighted incidence" is still decided exactly by TLC
QuarterClauses(c) ==
  LET S == DecStateL(c.st)
      W(k) == S.E[k].w
  IN Std("incidence_fractional_weights", c.winc, S.nodes, IncidenceIs(c.winc, Keys(S), W))

C09Clauses(c) ==
  IF c.kind = "hgq" THEN QuarterClauses(c) ELSE
  IF c.kind = "temp" THEN TempClauses(c)
  ELSE HgClauses(c) \cup OrderClauses(c) \cup LapAllClauses(c) \cup TensorClauses(c)
R == INSTANCE CaseRunner WITH Clauses <- C09Clauses
TInit == R!CInit
TNext == R!CNext
=============================================================================
