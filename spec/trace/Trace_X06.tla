---------------------------- MODULE Trace_X06 ----------------------------
(* X06: what hypergraphx/measures/temporal/temporal_correlations.py returns, against   *)
(* TempCorr.tla.                                                                        *)
(* A case: st (abstract temporal state, Binding.state), T (times 0..T-1 of the input),  *)
(* D (orders 1..D of the input), rows (the nodes in the row order of the input          *)
(* matrices), ann ("given": the time averages were passed, "default": None was passed), *)
(* inA / inAbar (the input matrices the harness built from st: judged first, under      *)
(* "harness_input:*", so that a wrong INPUT is never blamed on the library) and one     *)
(* sequence of call records per function.  A rational matrix is [M, q, shape] and       *)
(* stands for M / q; a rational value is <<num, den>>; a call that raised or returned   *)
(* something unreadable is [raised |-> TRUE].  Normalised values (irrational in         *)
(* general) are logged multiplied by 2 sqrt(s1 s2), s1 and s2 being the sigmas the      *)
(* library itself returned (logged too: the clause binds only when they are the         *)
(* specification's sigmas and both are positive); [undefined |-> TRUE] is a NaN / inf,  *)
(* accepted exactly when the normalisation vanishes.  maxo is the max_order that was    *)
(* in force (the argument, or D when None was passed).                                  *)
(* Clause names are "<function>:<aspect>".                                              *)
EXTENDS Dec, TempCorr
VARIABLES ci, nbad

X6State(j) ==
  LET ps == {<<DecKey(e.k), e>> : e \in Rng(j.edges)}
  IN [nodes |-> Rng(j.nodes),
      E     |-> [k \in {p[1] : p \in ps} |-> LET e == (CHOOSE p \in ps : p[1] = k)[2] IN [w |-> e.w, md |-> e.md]],
      nmd   |-> Pairs2Fun(j.nmd),
      hmd   |-> j.hmd,
      wtd   |-> j.wtd]

Ret(r)       == ~Has(r, "raised")
Sq(m, N)     == m.shape = <<N, N>> /\ Len(m.M) = N /\ \A i \in 1..N : Len(m.M[i]) = N
\* M / q = F(i, j) entrywise, F(i, j) = <<num, den>>
MatIs(m, N, F(_, _)) == \A i, j \in 1..N : RSame(<<m.M[i][j], m.q>>, F(i, j))
Neg(q)       == <<0 - q[1], q[2]>>
Known(r)     == ~Has(r, "undefined") /\ ~Has(r, "nosigma")
SigIs(sig, d, want) == \E p \in Rng(sig) : p[1] = d /\ RSame(<<p[2], p[3]>>, want)

(* ---------------------------------------------------------------------------------- *)
\* the harness: its input matrices are the TempAdjD of the state and their time averages
InputClauses(c, adj, tot, N) ==
  {<<"harness_input:adjacency",
        /\ \A r \in Rng(c.inA) : r.d \in 1..c.D /\ r.t \in 0..(c.T - 1) /\ Sq(r, N)
                                 /\ \A i, j \in 1..N : r.M[i][j] = adj[r.d][r.t][i][j]
        /\ {<<r.d, r.t>> : r \in Rng(c.inA)} = (1..c.D) \X (0..(c.T - 1)) /\ Len(c.inA) = c.D * c.T>>,
   <<"harness_input:annealed_is_the_time_average",
        c.ann = "given" =>
          /\ \A r \in Rng(c.inAbar) : r.d \in 1..c.D /\ Sq(r, N)
                                      /\ \A i, j \in 1..N : r.M[i][j] * c.T = tot[r.d][i][j] * r.q
          /\ {r.d : r \in Rng(c.inAbar)} = 1..c.D /\ Len(c.inAbar) = c.D>>}

(* X06-a, X06-b ----------------------------------------------------------------------- *)
IntraClauses(c, num, fun, N) ==
  LET Ms == Rng(c.im)   Fs == Rng(c.ifn) IN
  {<<"intra_order_correlation_matrix_by_order:returned", \A r \in Ms : Ret(r)>>,
   <<"intra_order_correlation_matrix_by_order:shape", \A r \in Ms : Ret(r) => Sq(r, N)>>,
   <<"intra_order_correlation_matrix_by_order:entries", \A r \in Ms : (Ret(r) /\ Sq(r, N)) =>
        LET F(i, j) == TCIntra(num, c.T, r.d, r.tau, i, j) IN MatIs(r, N, F)>>,
   <<"intra_order_correlation_function_by_order:returned", \A r \in Fs : Ret(r)>>,
   <<"intra_order_correlation_function_by_order:value", \A r \in Fs : Ret(r) =>
        RSame(r.v, TCIntraFun(fun, c.T, r.d, r.tau))>>}

(* X06-c ------------------------------------------------------------------------------ *)
IntraAllClauses(c, num, fun, N) ==
  LET Ms == Rng(c.iam)   Fs == Rng(c.iaf) IN
  {<<"intra_order_correlation_matrices_all_orders:returned", \A r \in Ms : Ret(r)>>,
   <<"intra_order_correlation_matrices_all_orders:keys", \A r \in Ms : Ret(r) =>
        {m.d : m \in Rng(r.mats)} = TCOrders(r.maxo) /\ Len(r.mats) = r.maxo>>,
   <<"intra_order_correlation_matrices_all_orders:shape", \A r \in Ms : Ret(r) => \A m \in Rng(r.mats) : Sq(m, N)>>,
   <<"intra_order_correlation_matrices_all_orders:entries", \A r \in Ms : Ret(r) =>
        \A m \in Rng(r.mats) : (m.d \in 1..c.D /\ Sq(m, N)) =>
           LET F(i, j) == TCIntra(num, c.T, m.d, r.tau, i, j) IN MatIs(m, N, F)>>,
   <<"intra_order_correlation_functions_all_orders:returned", \A r \in Fs : Ret(r)>>,
   <<"intra_order_correlation_functions_all_orders:keys", \A r \in Fs : Ret(r) =>
        {p[1] : p \in Rng(r.vals)} = TCOrders(r.maxo) /\ Len(r.vals) = r.maxo>>,
   <<"intra_order_correlation_functions_all_orders:values", \A r \in Fs : Ret(r) =>
        \A p \in Rng(r.vals) : p[1] \in 1..c.D => RSame(<<p[2], p[3]>>, TCIntraFun(fun, c.T, p[1], r.tau))>>}

(* X06-d, X06-e ----------------------------------------------------------------------- *)
CrossClauses(c, num, fun, N) ==
  LET Ms == Rng(c.cm)
      Fs == {r \in Rng(c.cf) : ~r.norm}
      Ns == {r \in Rng(c.cf) : r.norm}
      Pos(r)   == TCNormPositive(fun, r.d1, r.d2)
      SigOK(r) == RSame(r.s1, TCSigma(fun, c.T, r.d1)) /\ RSame(r.s2, TCSigma(fun, c.T, r.d2))
  IN
  {<<"cross_order_correlation_matrix_two_orders:returned", \A r \in Ms : Ret(r)>>,
   <<"cross_order_correlation_matrix_two_orders:shape", \A r \in Ms : Ret(r) => Sq(r, N)>>,
   <<"cross_order_correlation_matrix_two_orders:entries", \A r \in Ms : (Ret(r) /\ Sq(r, N)) =>
        LET F(i, j) == TCCross(num, c.T, r.d1, r.d2, r.tau, i, j) IN MatIs(r, N, F)>>,
   <<"cross_order_correlation_function_two_orders:returned",
        /\ \A r \in Fs : Ret(r)
        /\ \A r \in Ns : Ret(r) \/ ~Pos(r)>>,
   <<"cross_order_correlation_function_two_orders:value", \A r \in Fs : Ret(r) =>
        RSame(r.v, TCCrossFun(fun, c.T, r.d1, r.d2, r.tau))>>,
   <<"cross_order_correlation_function_two_orders:value_normalized", \A r \in Ns : Ret(r) =>
        /\ Has(r, "undefined") => ~Pos(r)
        /\ (Known(r) /\ Pos(r) /\ SigOK(r)) => RSame(r.v, TCCrossFun(fun, c.T, r.d1, r.d2, r.tau))>>}

(* X06-f ------------------------------------------------------------------------------ *)
CrossAllClauses(c, num, fun, N) ==
  LET Ms == Rng(c.cam)   Fs == Rng(c.caf)
      InD(a, b) == a \in 1..c.D /\ b \in 1..c.D
      \* one logged value <<d1, d2, num, den>> of the record r (denormalised when r.norm)
      ValOK(r, p) == IF ~r.norm THEN RSame(<<p[3], p[4]>>, TCCrossFun(fun, c.T, p[1], p[2], r.tau))
                     ELSE (~Has(r, "nosigma") /\ TCNormPositive(fun, p[1], p[2])
                           /\ SigIs(r.sig, p[1], TCSigma(fun, c.T, p[1])) /\ SigIs(r.sig, p[2], TCSigma(fun, c.T, p[2])))
                          => RSame(<<p[3], p[4]>>, TCCrossFun(fun, c.T, p[1], p[2], r.tau))
      UndefOK(r, p) == r.norm /\ ~TCNormPositive(fun, p[1], p[2])
      Part(r, lower) == /\ \A p \in Rng(r.vals)  : (InD(p[1], p[2]) /\ ((p[1] > p[2]) <=> lower)) => ValOK(r, p)
                        /\ \A p \in Rng(r.undef) : (InD(p[1], p[2]) /\ ((p[1] > p[2]) <=> lower)) => UndefOK(r, p)
  IN
  {<<"cross_order_correlation_matrices_all_orders:returned", \A r \in Ms : Ret(r)>>,
   <<"cross_order_correlation_matrices_all_orders:keys", \A r \in Ms : Ret(r) =>
        {<<m.d1, m.d2>> : m \in Rng(r.mats)} = TCPairs(r.maxo) /\ Len(r.mats) = r.maxo * r.maxo>>,
   <<"cross_order_correlation_matrices_all_orders:shape", \A r \in Ms : Ret(r) => \A m \in Rng(r.mats) : Sq(m, N)>>,
   <<"cross_order_correlation_matrices_all_orders:entries", \A r \in Ms : Ret(r) =>
        \A m \in Rng(r.mats) : (InD(m.d1, m.d2) /\ Sq(m, N)) =>
           LET F(i, j) == TCCross(num, c.T, m.d1, m.d2, r.tau, i, j) IN MatIs(m, N, F)>>,
   <<"cross_order_correlation_functions_all_orders:returned", \A r \in Fs : Ret(r)>>,
   <<"cross_order_correlation_functions_all_orders:keys", \A r \in Fs : Ret(r) =>
        /\ {<<p[1], p[2]>> : p \in Rng(r.vals)} \cup Rng(r.undef) = TCPairs(r.maxo)
        /\ Len(r.vals) + Len(r.undef) = r.maxo * r.maxo>>,
   <<"cross_order_correlation_functions_all_orders:values_d1_le_d2", \A r \in Fs : Ret(r) => Part(r, FALSE)>>,
   <<"cross_order_correlation_functions_all_orders:values_d1_gt_d2", \A r \in Fs : Ret(r) => Part(r, TRUE)>>}

(* X06-g, X06-h ----------------------------------------------------------------------- *)
GapClauses(c, num, fun, N) ==
  LET Gs == Rng(c.gf)   As == Rng(c.gaf)
      Pos(r)   == TCNormPositive(fun, r.d1, r.d2)
      SigOK(r) == RSame(r.s1, TCSigma(fun, c.T, r.d1)) /\ RSame(r.s2, TCSigma(fun, c.T, r.d2))
      InD(a, b) == a \in 1..c.D /\ b \in 1..c.D
      Val(r, a, b) == LET p == CHOOSE p \in Rng(r.vals) : p[1] = a /\ p[2] = b IN <<p[3], p[4]>>
      HasVal(r, a, b) == \E p \in Rng(r.vals) : p[1] = a /\ p[2] = b
  IN
  {<<"cross_order_gap_function_two_orders:returned", \A r \in Gs : Ret(r) \/ (r.d1 # r.d2 /\ ~Pos(r))>>,
   <<"cross_order_gap_function_two_orders:value", \A r \in Gs : Ret(r) =>
        IF r.d1 = r.d2 THEN Known(r) /\ r.v[1] = 0
        ELSE /\ Has(r, "undefined") => ~Pos(r)
             /\ (Known(r) /\ Pos(r) /\ SigOK(r)) => RSame(r.v, TCGapTimesNorm(fun, c.T, r.d1, r.d2, r.tau))>>,
   <<"cross_order_gap_functions_all_orders:returned", \A r \in As : Ret(r)>>,
   <<"cross_order_gap_functions_all_orders:keys", \A r \in As : Ret(r) =>
        /\ {<<p[1], p[2]>> : p \in Rng(r.vals)} \cup Rng(r.undef) = TCPairs(r.maxo)
        /\ Len(r.vals) + Len(r.undef) = r.maxo * r.maxo>>,
   <<"cross_order_gap_functions_all_orders:values", \A r \in As : Ret(r) =>
        /\ \A p \in Rng(r.vals) : InD(p[1], p[2]) =>
              IF p[1] = p[2] THEN p[3] = 0
              ELSE (~Has(r, "nosigma") /\ TCNormPositive(fun, p[1], p[2])
                    /\ SigIs(r.sig, p[1], TCSigma(fun, c.T, p[1])) /\ SigIs(r.sig, p[2], TCSigma(fun, c.T, p[2])))
                   => RSame(<<p[3], p[4]>>, TCGapTimesNorm(fun, c.T, p[1], p[2], r.tau))
        /\ \A p \in Rng(r.undef) : InD(p[1], p[2]) => (p[1] # p[2] /\ ~TCNormPositive(fun, p[1], p[2]))>>,
   <<"cross_order_gap_functions_all_orders:antisymmetric", \A r \in As : (Ret(r) /\ ~Has(r, "nosigma")) =>
        \A a, b \in TCOrders(r.maxo) : (HasVal(r, a, b) /\ HasVal(r, b, a)) => RSame(Val(r, a, b), Neg(Val(r, b, a)))>>}

X06Clauses(c) ==
  LET S    == X6State(c.st)
      N    == Len(c.rows)
      Good == TCRowsOf(c.rows, S.nodes) /\ c.T >= 1 /\ c.D >= 1
  IN IF ~Good THEN {<<"harness_input:rows_enumerate_the_nodes", FALSE>>} ELSE
     LET adj == TCAdj(S, c.rows, c.T, c.D)
         tot == TCTotal(adj, N, c.T, c.D)
         cen == TCCentredOf(adj, tot, N, c.T, c.D)
         num == TCNumTableOf(cen, N, c.T, c.D)
         fun == TCFunTable(num, N, c.T, c.D)
     IN InputClauses(c, adj, tot, N) \cup IntraClauses(c, num, fun, N) \cup IntraAllClauses(c, num, fun, N)
        \cup CrossClauses(c, num, fun, N) \cup CrossAllClauses(c, num, fun, N) \cup GapClauses(c, num, fun, N)

R == INSTANCE CaseRunner WITH Clauses <- X06Clauses
TInit == R!CInit
TNext == R!CNext
=============================================================================
