---------------------------- MODULE Trace_C17 ----------------------------
(***************************************************************************)
(* C17 (discrete output contracts): what HySC.fit and HypergraphMT.fit     *)
(* return, against post-conditions stated over the abstract hypergraph     *)
(* (N nodes with spec ids 1..N, hyperedges as node lists).  Real-valued    *)
(* matrices never enter TLC: the harness logs, per row / per matrix, exact *)
(* booleans and integers (entry codes 0 = 0.0, 1 = 1.0, 2 = anything else; *)
(* shapes; finite / non-negative / zero-row / row-sums-to-one flags) and   *)
(* TLC decides which nodes are isolated and what must hold for them.       *)
(***************************************************************************)
EXTENDS Integers, Sequences, FiniteSets, TLC, Json, IOUtils
VARIABLES ci, nbad

Rng(s)    == {s[i] : i \in DOMAIN s}
Has(r, f) == f \in DOMAIN r
Edges(c)    == {Rng(c.edges[j]) : j \in DOMAIN c.edges}
Isolated(c) == {i \in 1..c.N : \A e \in Edges(c) : i \notin e}
MaxSize(c)  == CHOOSE d \in {Cardinality(e) : e \in Edges(c)} : \A e \in Edges(c) : Cardinality(e) <= d
Ones(row)   == Cardinality({a \in DOMAIN row : row[a] = 1})

\* HySCPost(H, K, out): a 0/1 matrix, exactly one 1 per non-isolated node, none for isolated nodes
HySCShape(c)   == Len(c.out) = c.N /\ \A i \in DOMAIN c.out : Len(c.out[i]) = c.K
HySCZeroOne(c) == \A i \in DOMAIN c.out : \A a \in DOMAIN c.out[i] : c.out[i][a] \in {0, 1}
HySCOnePerNonIsolated(c) == \A i \in (1..c.N) \ Isolated(c) : i \in DOMAIN c.out => Ones(c.out[i]) = 1
HySCNoneForIsolated(c)   == \A i \in Isolated(c) : i \in DOMAIN c.out => \A a \in DOMAIN c.out[i] : c.out[i][a] = 0

C17Clauses(c) ==
  IF c.kind = "hysc" THEN
    {<<"hysc_shape", HySCShape(c)>>, <<"hysc_zero_one", HySCZeroOne(c)>>,
     <<"hysc_one_per_non_isolated_node", HySCOnePerNonIsolated(c)>>,
     <<"hysc_none_for_isolated_node", HySCNoneForIsolated(c)>>,
     <<"hysc_same_seed_same_result", c.same>>}
  ELSE IF c.kind = "mt" THEN
    {<<"u_shape", c.ushape = <<c.N, c.K>> /\ Len(c.rows) = c.N>>,
     <<"u_finite_nonnegative", \A i \in DOMAIN c.rows : c.rows[i].finite /\ c.rows[i].nonneg>>,
     <<"isolated_rows_zero", \A i \in Isolated(c) : i \in DOMAIN c.rows => c.rows[i].zero>>,
     <<"rows_sum_to_one_when_normalised", c.normalizeU => \A i \in DOMAIN c.rows : ~c.rows[i].zero => c.rows[i].sumone>>,
     <<"w_shape", c.wshape = <<MaxSize(c) - 1, c.K>>>>,
     <<"w_finite_nonnegative", c.wfinite /\ c.wnonneg>>,
     <<"mt_same_seed_same_result", c.same>>}
    \cup (IF Has(c, "lldef") THEN {<<"loglik_equals_definition", c.lldef>>} ELSE {})
  ELSE {<<"known_kind", FALSE>>}

R == INSTANCE CaseRunner WITH Clauses <- C17Clauses
TInit == R!CInit
TNext == R!CNext
=============================================================================
