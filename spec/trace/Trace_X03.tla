---------------------------- MODULE Trace_X03 ----------------------------
(* X03: values returned by hypergraphx.utils.visits, measures.degree,          *)
(* measures.multiplex.edge_overlap, measures.edge_similarity and the module-   *)
(* level functions of utils.cc, against Visits.tla / Derive.tla / HGX.tla.     *)
(* A case = the abstract state of a real object + what the calls returned.     *)
EXTENDS Dec, Visits
VARIABLES ci, nbad

FOf(r) == <<r.f[1], r.f[2]>>
SeqSum(sq, i) == LET V(j) == sq[j][i] IN SumSet(V, DOMAIN sq)

(* X03-a/b *)
VisitClauses(S, vq) ==
  LET T(r)  == Ball(S, r.n, r.md, FOf(r))
      In(r) == r.n \in S.nodes
      Of(a) == {r \in Rng(vq) : r.algo = a}
  IN {<<"visit_rejects_absent_start", \A r \in Rng(vq) : ~In(r) => r.raised>>,
      <<"bfs_ball", \A r \in Of("bfs") : In(r) => (~r.raised /\ Rng(r.res) = T(r))>>,
      <<"dfs_ball_unbounded", \A r \in Of("dfs") : (In(r) /\ r.md < 0) => (~r.raised /\ Rng(r.res) = T(r))>>,
      \* undisputed part of the depth-limited DFS: never beyond the bound, the start and (bound >= 1) its neighbours are there
      <<"dfs_within_ball", \A r \in Of("dfs") : (In(r) /\ r.md >= 0) =>
            /\ ~r.raised
            /\ Rng(r.res) \subseteq T(r)
            /\ Ball(S, r.n, IF r.md >= 1 THEN 1 ELSE 0, FOf(r)) \subseteq Rng(r.res)>>,
      \* the docstring's statement for the depth-limited DFS (candidate defect X03-D1 of the code)
      <<"dfs_ball_bounded_depth", \A r \in Of("dfs") : (In(r) /\ r.md >= 0 /\ ~r.raised) => Rng(r.res) = T(r)>>}

(* X03-d *)
DegreeClauses(S, c) ==
  (IF Has(c, "deg") THEN {<<"degree", \A r \in Rng(c.deg) : r.deg = Degree(S, r.n, FOf(r))>>} ELSE {})
  \cup (IF Has(c, "seqs") THEN
     {<<"degree_sequence", \A r \in Rng(c.seqs) :
           /\ Len(r.seq) = Cardinality(S.nodes) /\ {p[1] : p \in Rng(r.seq)} = S.nodes
           /\ \A p \in Rng(r.seq) : p[2] = DegSeq(S, FOf(r))[p[1]]>>,
      <<"degree_sum_is_size_sum", \A r \in Rng(c.seqs) :
           LET Z(k) == KSize(k) IN SeqSum(r.seq, 2) = SumSet(Z, EdgesF(S, FOf(r)))>>} ELSE {})
  \cup (IF Has(c, "dists") THEN
     {<<"degree_distribution", \A r \in Rng(c.dists) :
           LET dd == DegDist(S, FOf(r)) IN
           /\ Len(r.dist) = Cardinality(DOMAIN dd) /\ {p[1] : p \in Rng(r.dist)} = DOMAIN dd
           /\ \A p \in Rng(r.dist) : p[1] \in DOMAIN dd /\ p[2] = dd[p[1]]>>,
      <<"distribution_counts_every_node", \A r \in Rng(c.dists) : SeqSum(r.dist, 2) = Cardinality(S.nodes)>>} ELSE {})

(* X03-e: cells are [i, j, nan, sgn, num, den] with r^2 = num/den in lowest terms *)
CorrClauses(S, m) ==
  LET dim == CorrDim(S) IN
  {<<"degree_correlation_shape",
       /\ m.rows = dim /\ m.cols = dim /\ Len(m.cells) = dim * dim
       /\ {<<x.i, x.j>> : x \in Rng(m.cells)} = (0..(dim - 1)) \X (0..(dim - 1))>>,
   <<"degree_correlation_value", \A x \in Rng(m.cells) :
       LET a == x.i + 2  b == x.j + 2  sq == PearsonSq(S, a, b) IN
       PearsonDefined(S, a, b) =>
          /\ ~x.nan
          /\ x.sgn = PearsonSign(S, a, b)
          /\ IsReduced(x.num, x.den, sq[1], sq[2])>>,
   <<"degree_correlation_in_unit_interval", \A x \in Rng(m.cells) : ~x.nan => (0 <= x.num /\ x.num <= x.den)>>}

(* X03-f *)
OverlapClauses(S, oq) ==
  {<<"edge_overlap", \A r \in Rng(oq) : r.ov = Overlap(S, Rng(r.e))>>,
   <<"edge_overlap_counts_layers", \A r \in Rng(oq) :
        /\ r.ov >= Cardinality(LayersHolding(S, Rng(r.e)))
        /\ ~S.wtd => r.ov = Cardinality(LayersHolding(S, Rng(r.e)))>>}

(* X03-g *)
SimClauses(sq) ==
  LET A(r) == Rng(r.a)  B(r) == Rng(r.b) IN
  {<<"intersection", \A r \in Rng(sq) : r.hasi /\ r.inter = Inter(A(r), B(r))>>,
   <<"jaccard_similarity", \A r \in Rng(sq) : JDefined(A(r), B(r)) => (r.hasj /\ RatEq(r.jac, Jaccard(A(r), B(r))))>>,
   <<"jaccard_distance", \A r \in Rng(sq) : JDefined(A(r), B(r)) => (r.hasd /\ RatEq(r.dist, JDist(A(r), B(r))))>>,
   <<"distance_is_one_minus_similarity", \A r \in Rng(sq) : (r.hasj /\ r.hasd) =>
        r.jac[1] * r.dist[2] + r.dist[1] * r.jac[2] = r.jac[2] * r.dist[2]>>,
   <<"similarity_in_unit_interval", \A r \in Rng(sq) : r.hasj => (0 <= r.jac[1] /\ r.jac[1] <= r.jac[2] /\ r.jac[2] > 0)>>}

(* X03-h *)
IsoClauses(S, iq) ==
  {<<"isolated_nodes", \A r \in Rng(iq) : r.hasl => SeqBag(r.isolated) = SetBag(Isolated(S, FOf(r)))>>,
   <<"is_isolated", \A r \in Rng(iq) : \A p \in Rng(r.bynode) : p[2] = (p[1] \in Isolated(S, FOf(r)))>>,
   <<"isolated_calls_answer", \A r \in Rng(iq) : r.hasl /\ Len(r.bynode) = Cardinality(S.nodes)>>}

X03Clauses(c) ==
  LET S == DecState(c.st) IN
  (IF Has(c, "visits") THEN VisitClauses(S, c.visits) ELSE {})
  \cup DegreeClauses(S, c)
  \cup (IF Has(c, "corr") THEN CorrClauses(S, c.corr) ELSE {})
  \cup (IF Has(c, "overlap") THEN OverlapClauses(S, c.overlap) ELSE {})
  \cup (IF Has(c, "sims") THEN SimClauses(c.sims) ELSE {})
  \cup (IF Has(c, "iso") THEN IsoClauses(S, c.iso) ELSE {})
  \cup (IF Has(c, "cc") THEN CCClauses(c.cc, S) \cup {<<"cc_calls_answer", c.ccok>>} ELSE {})
R == INSTANCE CaseRunner WITH Clauses <- X03Clauses
TInit == R!CInit
TNext == R!CNext
=============================================================================
