---------------------------- MODULE Trace_C19S ----------------------------
(* C19, second half: the per-size tables returned by get_svh against SVH.tla.  *)
(* A case = [id, st, mx, ok, sizes : Seq([n, exact, den, rows])], a row =        *)
(* [e : Seq(node), fdr, rank, pnum, pok]:                                        *)
(*   rank  dense rank of the returned p-value among the rows of its size         *)
(*   pnum  (exact regime only) the returned p-value times den = N^(n*N), pok =   *)
(*         "the returned float is pnum/den"                                      *)
(* In the exact regime TLC decides the p-values and the validated set; outside  *)
(* it TLC decides the tested set, the lower-set property and the parameters     *)
(* (w, N, K_i, number of spanned nodes), which it prints ("PAR ...") for the     *)
(* harness to evaluate the same tail / threshold definitions over Fractions.    *)
EXTENDS Dec, SVH, Json
VARIABLES ci, nbad

RK(r) == Key(Rng(r.e), {}, 0)
KBag(S, k) == LET vs == {Kocc(S, i, KSize(k)) : i \in k.s}
              IN [v \in vs |-> Cardinality({i \in k.s : Kocc(S, i, KSize(k)) = v})]
Params(S, mx, n) ==
  [N |-> Nocc(S, n), na |-> Cardinality(NodesSpanned(S, mx, n)),
   rows |-> {<<k.s, Wt(S, k), {<<i, Kocc(S, i, n)>> : i \in k.s}>> : k \in TestedOf(S, mx, n)}]

\* TLC evaluates function constructors lazily (once per application): TLCEval forces the tables that are
\* looked up many times
C19SClauses(c) ==
  LET S0 == DecState(c.st)
      S  == [S0 EXCEPT !.E = TLCEval(S0.E)]
      mx == c.mx
      szs == Rng(c.sizes)
      tsz == TLCEval(TestedSizes(S, mx))
      Good0(s) == /\ s.n \in tsz
                  /\ {RK(r) : r \in Rng(s.rows)} = TestedOf(S, mx, s.n)
                  /\ Len(s.rows) = Cardinality(TestedOf(S, mx, s.n))
      good == TLCEval([s \in szs |-> Good0(s)])
      Good(s) == good[s]
      exr == TLCEval([s \in szs |-> ExactRegime(Nocc(S, s.n), s.n)])
      Ex(s) == exr[s]
      kb == TLCEval([s \in szs |-> IF Good(s) THEN [r \in Rng(s.rows) |-> <<KBag(S, RK(r)), Wt(S, RK(r))>>] ELSE <<>>])
  IN IF ~c.ok THEN {<<"svh_returns", FALSE>>} ELSE
     {<<"svh_tested_sizes", {s.n : s \in szs} = tsz /\ Len(c.sizes) = Cardinality(tsz)>>,
      <<"svh_every_hyperedge_once_under_its_size",
        \A s \in szs : s.n \in tsz =>
            /\ Good(s)
            /\ \A r \in Rng(s.rows) : Len(r.e) = s.n /\ Cardinality(Rng(r.e)) = s.n>>,
      <<"svh_harness_regime_agrees", \A s \in szs : Good(s) => (s.exact = Ex(s))>>,
      <<"svh_pvalue_is_binomial_tail",
        \A s \in szs : (Good(s) /\ Ex(s) /\ s.exact) =>
            /\ s.den = PDen(S, s.n)
            /\ \A r \in Rng(s.rows) : r.pok /\ r.pnum = PNum(S, RK(r))>>,
      <<"svh_validated_iff_below_threshold",
        \A s \in szs : (Good(s) /\ Ex(s) /\ s.exact) =>
            LET P == TLCEval(PValues(S, mx, s.n))  M == InvLevel(S, mx, s.n)
            IN ~OnALevel(P, M) => {RK(r) : r \in {x \in Rng(s.rows) : x.fdr}} = StepUpValidated(P, M)>>,
      <<"svh_validated_is_lower_set",
        \A s \in szs : \A r1, r2 \in Rng(s.rows) : (r1.fdr /\ ~r2.fdr) => r2.rank >= r1.rank>>,
      <<"svh_pvalue_depends_on_parameters_only",
        \A s \in szs : Good(s) => \A r1, r2 \in Rng(s.rows) :
            (kb[s][r1][1] = kb[s][r2][1]) =>
                /\ (kb[s][r1][2] = kb[s][r2][2] => r1.rank = r2.rank)
                /\ (kb[s][r1][2] < kb[s][r2][2] => r1.rank >= r2.rank)>>,
      <<"emit", \A s \in szs : (Good(s) /\ ~Ex(s)) =>
            PrintT("PAR " \o ToJson([id |-> c.id, n |-> s.n, par |-> Params(S, mx, s.n)]))>>}

R == INSTANCE CaseRunner WITH Clauses <- C19SClauses
TInit == R!CInit
TNext == R!CNext
=============================================================================
