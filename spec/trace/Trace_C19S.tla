---------------------------- MODULE Trace_C19S ----------------------------
(* C19, second half: the per-size tables returned by get_svh against SVH.tla.  *)
(* A case = [id, st, mx, ok, sizes : Seq([n, exact, den, rows])], a row =        *)
(* [e : Seq(node), fdr, rank, pnum, pok]:                                        *)
(*   rank  dense rank of the returned p-value among the rows of its size         *)
(*   pnum  (exact regime only) the returned p-value times den = N^(n*N), pok =   *)
(*         "the returned float is pnum/den"                                      *)
(* In the exact regime TLC decides the p-values and the validated set; outside  *)
(* it TLC decides the tested set, the lower-set property and the parameters     *)
(* (w, N, K_i, number of spanned nodes), which it prints ("PAR ...") for the     *)
(* harness to evaluate the same tail / threshold definitions over Fractions.    *)
EXTENDS Dec, SVH, Json
VARIABLES ci, nbad

RK(r) == Key(Rng(r.e), {}, 0)
KBag(S, k) == LET vs == {Kocc(S, i, KSize(k)) : i \in k.s}
              IN [v \in vs |-> Cardinality({i \in k.s : Kocc(S, i, KSize(k)) = v})]
Params(S, mx, n) ==
  [N |-> Nocc(S, n), na |-> Cardinality(NodesSpanned(S, mx, n)),
   rows |-> {<<k.s, Wt(S, k), {<<i, Kocc(S, i, n)>> : i \in k.s}>> : k \in TestedOf(S, mx, n)}]

\* TLC evaluates function constructors lazily (once per application): TLCEval forces the tables that are
\* looked up many times
C19SClauses(c) ==
  LET S0 == DecState(c.st)
      S  == [S0 EXCEPT !.E = TLCEval(S0.E)]
      mx == c.mx
      J  == DOMAIN c.sizes                       \* the returned tables, by position
      T(j) == c.sizes[j]
      tsz == TLCEval(TestedSizes(S, mx))
      Good0(s) == /\ s.n \in tsz
                  /\ {RK(r) : r \in Rng(s.rows)} = TestedOf(S, mx, s.n)
                  /\ Len(s.rows) = Cardinality(TestedOf(S, mx, s.n))
      good == TLCEval([j \in J |-> Good0(T(j))])
      Good(j) == good[j]
      exr == TLCEval([j \in J |-> ExactRegime(Nocc(S, T(j).n), T(j).n)])
      Ex(j) == exr[j]
      \* per row: <<bag of the K_i, weight>>
      kb == TLCEval([j \in J |-> IF Good(j) THEN TLCEval([i \in DOMAIN T(j).rows |->
                                       <<KBag(S, RK(T(j).rows[i])), Wt(S, RK(T(j).rows[i]))>>]) ELSE <<>>])
  IN IF ~c.ok THEN {<<"svh_returns", FALSE>>} ELSE
     {<<"svh_tested_sizes", {T(j).n : j \in J} = tsz /\ Len(c.sizes) = Cardinality(tsz)>>,
      <<"svh_every_hyperedge_once_under_its_size",
        \A j \in J : T(j).n \in tsz =>
            /\ Good(j)
            /\ \A r \in Rng(T(j).rows) : Len(r.e) = T(j).n /\ Cardinality(Rng(r.e)) = T(j).n>>,
      <<"svh_harness_regime_agrees", \A j \in J : Good(j) => (T(j).exact = Ex(j))>>,
      <<"svh_pvalue_is_binomial_tail",
        \A j \in J : (Good(j) /\ Ex(j) /\ T(j).exact) =>
            /\ T(j).den = PDen(S, T(j).n)
            /\ \A r \in Rng(T(j).rows) : r.pok /\ r.pnum = PNum(S, RK(r))>>,
      <<"svh_validated_iff_below_threshold",
        \A j \in J : (Good(j) /\ Ex(j) /\ T(j).exact) =>
            LET P == TLCEval(PValues(S, mx, T(j).n))  M == InvLevel(S, mx, T(j).n)
            IN ~OnALevel(P, M) => {RK(r) : r \in {x \in Rng(T(j).rows) : x.fdr}} = StepUpValidated(P, M)>>,
      <<"svh_validated_is_lower_set",
        \A j \in J : \A r1, r2 \in Rng(T(j).rows) : (r1.fdr /\ ~r2.fdr) => r2.rank >= r1.rank>>,
      <<"svh_pvalue_depends_on_parameters_only",
        \A j \in J : Good(j) => \A i1, i2 \in DOMAIN T(j).rows :
            (kb[j][i1][1] = kb[j][i2][1]) =>
                /\ (kb[j][i1][2] = kb[j][i2][2] => T(j).rows[i1].rank = T(j).rows[i2].rank)
                /\ (kb[j][i1][2] < kb[j][i2][2] => T(j).rows[i1].rank >= T(j).rows[i2].rank)>>,
      <<"emit", \A j \in J : (Good(j) /\ ~Ex(j)) =>
            PrintT("PAR " \o ToJson([id |-> c.id, n |-> T(j).n, par |-> Params(S, mx, T(j).n)]))>>}

R == INSTANCE CaseRunner WITH Clauses <- C19SClauses
TInit == R!CInit
TNext == R!CNext
=============================================================================
