---------------------------- MODULE Trace_X08 ----------------------------
(***************************************************************************)
(* X08: stateful trace validator for GroupAttractivenessModel.             *)
(*                                                                         *)
(* One trace = one object.  Events:                                        *)
(*   "dist"  one call of distance_in_a_periodic_box on grid points         *)
(*   "init"  the constructor: arguments, the state it left, and the state  *)
(*           after the harness placed agents / set a, r (public attributes)*)
(*   "step"  one iteration(): the observable state after it (activity,     *)
(*           groups, histories; positions as grid coordinates when the     *)
(*           run is on the grid), who moved, the neighbourhood the code    *)
(*           used; optionally the variates a stand-in generator supplied   *)
(*   "run"   one call of run(T, max_edges): how many iterations it made    *)
(*   "get"   the getters                                                   *)
(* The validator keeps the model's state S (GAM.tla).  A step event is     *)
(* judged as ONE iteration from S: the relations of X08-b..e must hold and *)
(* (model detail) the logged state must be ONE OF the successors of the    *)
(* nondeterministic action; with logged variates it must be THE successor  *)
(* they determine.  After every step S is resynchronised to the log.       *)
(* Never disabled; one RJ line per rejected event.                         *)
(*                                                                         *)
(* Geometry: on the grid (ev.grid) TLC decides neighbourhoods, step        *)
(* lengths and the box from integer coordinates.  Off the grid positions   *)
(* are IEEE doubles: the harness computes the neighbourhood relation with  *)
(* exact rational arithmetic on them (ev.nbr) and the three geometric      *)
(* bounds (ev.geo), TLC decides everything discrete from there.            *)
(***************************************************************************)
EXTENDS GAM, Json, IOUtils
VARIABLES ti, li, nbad, nev, S, W
tvars == <<ti, li, nbad, nev, S, W>>

Traces == TLCGet(42)
Sets(sq) == {SeqRng(x) : x \in SeqRng(sq)}
Once(sq) == Len(sq) = Cardinality(SeqRng(sq))
Increasing(sq) == \A x \in 1..(Len(sq) - 1) : sq[x] < sq[x + 1]

NoW == [N |-> 0, P |-> 1, r2 |-> <<1, 1>>, v2 |-> <<1, 1>>, v |-> 0, attr |-> <<>>, h1 |-> <<>>, h2 |-> <<>>,
        al |-> <<>>, rl |-> <<>>, X |-> <<>>]
NoS == [pos |-> <<>>, act |-> <<>>, grp |-> <<>>, it |-> 0, traj |-> {}, proj |-> {}, edges |-> {}]

DecW(j) == [N |-> j.N, P |-> j.P, r2 |-> j.r2, v2 |-> j.v2, v |-> j.v, attr |-> j.attr, h1 |-> j.h1, h2 |-> j.h2,
            al |-> j.al, rl |-> j.rl, X |-> j.X]
DecS(j, it, n) ==
  [pos |-> [i \in 1..n |-> IF i \in DOMAIN j.gpos THEN <<j.gpos[i][1], j.gpos[i][2]>> ELSE <<0, 0>>],
   act |-> [i \in 1..n |-> j.act[i]],
   grp |-> [i \in 1..n |-> Sets(j.grp[i])],
   it |-> it,
   traj  |-> {<<r[1], SeqRng(r[2])>> : r \in SeqRng(j.traj)},
   proj  |-> {<<r[1], SeqRng(r[2])>> : r \in SeqRng(j.proj)},
   edges |-> Sets(j.edges)]
ListingOK(j) ==
  /\ Once(j.traj) /\ Once(j.proj) /\ Once(j.edges)
  /\ \A r \in SeqRng(j.traj) \cup SeqRng(j.proj) : Increasing(r[2])
  /\ \A e \in SeqRng(j.edges) : Increasing(e)

---------------------------------------------------------------------------
DistClauses(ev) ==
  {<<"distance_call_returns", ev.ok>>} \cup
  (IF ~ev.ok THEN {} ELSE
   {<<"distance_matrix_is_k_by_k", ev.rows = ev.k /\ ev.cols = ev.k>>} \cup
   (IF ev.rows # ev.k \/ ev.cols # ev.k THEN {} ELSE
    {<<"distance_is_the_minimum_image_distance",
         \A i, j \in 1..ev.k : ev.sq[i][j] = Dist2(ev.pts[i], ev.pts[j], ev.P)>>,
     <<"distance_entries_are_square_roots", \A i, j \in 1..ev.k : ev.exact[i][j]>>}))

InitClauses(ev) ==
  LET n == ev.n  C == DecS(ev.made, ev.made.it, n) IN
  {<<"constructor_returns", ev.ok>>} \cup
  (IF ~ev.ok THEN {} ELSE
   {<<"constructor_state_partition",
        \A i \in 1..n : IF C.act[i] THEN C.grp[i] = {{i}} ELSE C.grp[i] = {}>>,
    <<"constructor_histories_empty", C.traj = {} /\ C.proj = {} /\ C.edges = {} /\ ev.made.it = 0>>,
    <<"constructor_positions_in_box", ev.inbox>>,
    <<"attributes_zero_for_the_balance_fraction",
        Len(ev.made.attr) = n /\ SeqRng(ev.made.attr) \subseteq {"0", "1"}
        /\ Cardinality({i \in 1..n : ev.made.attr[i] = "0"}) = ev.n0>>,
    <<"model_homophily_tables_as_documented",
        /\ ev.hq.h1["00"] = ev.hargs[1][1] /\ ev.hq.h1["11"] = ev.hargs[1][2]
        /\ ev.hq.h1["01"] = ev.hq.Q - ev.hargs[1][1] /\ ev.hq.h1["10"] = ev.hq.Q - ev.hargs[1][2]
        /\ ev.hq.h2["000"] = ev.hargs[2][1] /\ ev.hq.h2["001"] = ev.hargs[2][2]
        /\ ev.hq.h2["101"] = ev.hargs[2][3] /\ ev.hq.h2["111"] = ev.hargs[2][4]
        /\ ev.hq.h2["011"] = ev.hq.Q - ev.hargs[2][1] - ev.hargs[2][2]
        /\ ev.hq.h2["100"] = ev.hq.Q - ev.hargs[2][4] - ev.hargs[2][3]>>})

StepClauses(ev) ==
  LET n == W.N
      Q == DecS(ev.post, S.it, n)
      moved == SeqRng(ev.moved)
      cnbr == [i \in 1..n |-> SeqRng(ev.cnbr[i])]
      nbr == IF ev.grid THEN NbrOf(S.pos, S.act, W) ELSE [i \in 1..n |-> SeqRng(ev.nbr[i])]
      scope == /\ \A i \in 1..n : nbr[i] \subseteq {j \in 1..n : S.act[j]} \ {i} /\ (~S.act[i] => nbr[i] = {})
               /\ \A i, j \in 1..n : (j \in nbr[i]) <=> (i \in nbr[j])
               /\ moved \subseteq 1..n
               /\ ev.grid => \A i, j \in 1..n : i = j \/ ~OnRadius(S.pos[i], S.pos[j], W.P, W.r2)
      small == SelCount(n, S, nbr, W, [mv |-> moved, on |-> {}, off |-> {}, sel |-> [i \in 1..n |-> {}]]) <= 2048
      geo == IF ev.grid
             THEN {<<"positions_stay_in_the_box", \A i \in 1..n : InBox(Q.pos[i], W.P)>>,
                   <<"agents_that_do_not_move_keep_their_position", \A i \in (1..n) \ moved : Q.pos[i] = S.pos[i]>>,
                   <<"a_move_is_at_most_one_step_long", \A i \in moved : AtMost(S.pos[i], Q.pos[i], W.P, W.v2)>>}
             ELSE {<<"positions_stay_in_the_box", ev.geo.inbox>>,
                   <<"a_move_is_at_most_one_step_long", ev.geo.steplen>>}
      driven == IF ~ev.driven THEN {} ELSE
                LET ngl == [i \in 1..n |-> [k \in DOMAIN ev.ngl[i] |-> SeqRng(ev.ngl[i][k])]]
                    D == Driven(S, nbr, W, W.X, ngl, ev.draws)
                    c == [mv |-> D.mv, on |-> D.on, off |-> D.off, sel |-> D.sel]
                    E == Effect(S, nbr, W, c, "none")
                IN {<<"model_variates_are_consumed_as_modelled", ~D.short /\ D.k = Len(ev.draws) + 1>>,
                    <<"model_state_is_the_successor_the_variates_determine",
                        (D.short \/ D.amb) \/
                        (/\ D.mv = moved /\ E.act = Q.act /\ E.grp = Q.grp /\ E.traj = Q.traj
                         /\ (ev.grid => \A i \in D.mv : Q.pos[i] = StepTo(S.pos[i], D.dir[i], W.v, W.P)))>>}
  IN
  {<<"input_in_scope", scope>>} \cup
  (IF ~scope THEN {} ELSE
   {<<"max_time_counts_the_iterations", ev.it = S.it>>,
    <<"neighbourhood_is_the_active_agents_within_the_radius", cnbr = nbr>>,
    <<"state_partition", StatePartition(Q, W)>>,
    <<"groups_contain_their_owner_and_active_agents_only", GroupsWellFormed(Q, W)>>,
    <<"agent_transitions", AgentTransitions(S, nbr, W, moved, Q)>>,
    <<"groups_were_formed_in_this_iteration_around_a_centre", GroupsFormedNow(S, nbr, W, moved, Q)>>,
    <<"history_is_append_only", AppendOnly(S, Q)>>,
    <<"new_records_are_groups_of_this_iteration", RecordsAreGroups(S, Q, W)>>,
    <<"every_group_is_recorded", GroupsAreRecorded(S, Q, W)>>,
    <<"projection_and_edges_follow_the_hyperedges", HistoryConsistent(Q, W)>>,
    <<"records_listed_once_as_sorted_tuples", ListingOK(ev.post)>>,
    <<"model_agents_without_neighbours_move", MustMoveIsolated(S, nbr, W, moved)>>,
    <<"model_state_is_a_successor_of_the_iteration", ~small \/ IsSuccessor(S, nbr, W, moved, Q)>>}
   \cup geo \cup driven)

RunClauses(ev) ==
  {<<"run_returns", ev.ok>>} \cup
  (IF ~ev.ok THEN {} ELSE
   {<<"run_stops_after_T_iterations_or_at_max_edges",
        RunStopsWhereItShould(ev.T, ev.hasmax, ev.maxe, ev.done, ev.ecounts)>>,
    <<"max_time_counts_the_iterations", ev.it_after = ev.it_before + ev.done /\ ev.it_after = S.it>>})

GetClauses(ev) ==
  LET hy == {<<r[1], SeqRng(r[2])>> : r \in SeqRng(ev.hyper)}
      pr == {<<r[1], SeqRng(r[2])>> : r \in SeqRng(ev.proj)}
  IN
  {<<"getters_return", ev.ok>>} \cup
  (IF ~ev.ok THEN {} ELSE
   {<<"temporal_hyperedges_are_the_history", hy = S.traj /\ Once(ev.hyper)>>,
    <<"projected_network_is_the_pairs_of_the_history", pr = S.proj /\ Once(ev.proj)>>,
    <<"hyperedges_are_sorted_tuples_of_two_or_more_agents",
        \A r \in SeqRng(ev.hyper) : Increasing(r[2]) /\ Len(r[2]) >= 2 /\ SeqRng(r[2]) \subseteq 1..W.N>>,
    <<"times_in_range_of_max_time", ev.maxtime = S.it /\ \A r \in SeqRng(ev.hyper) \cup SeqRng(ev.proj) : 0 <= r[1] /\ r[1] < ev.maxtime>>,
    <<"attributes_never_change", ev.attrs = W.attr>>})

Clauses(ev) ==
  CASE ev.kind = "dist" -> DistClauses(ev)
    [] ev.kind = "init" -> InitClauses(ev)
    [] ev.kind = "step" -> StepClauses(ev)
    [] ev.kind = "run"  -> RunClauses(ev)
    [] ev.kind = "get"  -> GetClauses(ev)
    [] OTHER -> {<<"unknown_event", FALSE>>}

TInit == /\ ti = 1 /\ li = 1 /\ nbad = 0 /\ nev = 0 /\ S = NoS /\ W = NoW
         /\ TLCSet(42, JsonDeserialize(IOEnv.TRACE_FILE).traces)

TNext ==
  /\ ti <= Len(Traces)
  /\ IF li > Len(Traces[ti])
     THEN /\ ti' = ti + 1 /\ li' = 1 /\ S' = NoS /\ W' = NoW /\ UNCHANGED <<nbad, nev>>
          /\ (ti < Len(Traces) \/ PrintT("DONE " \o ToString(nev) \o " " \o ToString(nbad)))
     ELSE LET ev == Traces[ti][li]
              failed == {c[1] : c \in {c \in Clauses(ev) : ~c[2]}}
          IN /\ IF ev.kind = "init" /\ ev.ok
                THEN W' = DecW(ev.world) /\ S' = DecS(ev.start, ev.start.it, ev.n)
                ELSE IF ev.kind = "step"
                THEN S' = DecS(ev.post, ev.it + 1, W.N) /\ UNCHANGED W     \* continue from the LOGGED state
                ELSE UNCHANGED <<S, W>>
             /\ li' = li + 1 /\ ti' = ti /\ nev' = nev + 1
             /\ nbad' = IF failed = {} THEN nbad ELSE nbad + 1
             /\ (failed = {} \/ PrintT("RJ " \o ToString(<<ti, li, failed>>)))
=============================================================================
