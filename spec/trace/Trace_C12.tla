---------------------------- MODULE Trace_C12 ----------------------------
(* C12: values returned by hypergraphx.measures.directed.* against Directed.tla *)
EXTENDS Dec, Directed
VARIABLES ci, nbad
FilterOf(r) == <<r.f[1], r.f[2]>>
RecClause(name, S, mx, logged, Spec(_)) ==
  {<<name, /\ {p[1] : p \in Rng(logged)} = 2..mx
           /\ Len(logged) = mx - 1
           /\ \A p \in Rng(logged) : RatEq(<<p[2][1], p[2][2]>>, Spec(p[1]))>>}
C12Clauses(c) ==
  LET S == DecState(c.st) mx == c.mx IN
  (IF Has(c, "sig") THEN
     {<<"signature_shape", Len(c.sig) = (mx - 1) * (mx - 1)>>,
      <<"signature_cells", Len(c.sig) = (mx - 1) * (mx - 1) =>
           \A a, b \in 1..(mx - 1) : c.sig[SigIndex(mx, a, b)] = SigCell(S, mx, a, b)>>} ELSE {})
  \* large bounds: only the non-zero cells are logged ([index, value] pairs) with the vector length
  \cup (IF Has(c, "sigsparse") THEN
     {<<"signature_shape", c.siglen = (mx - 1) * (mx - 1)>>,
      <<"signature_cells",
          /\ \A p \in Rng(c.sigsparse) :
                LET a == ((p[1] - 1) \div (mx - 1)) + 1   b == ((p[1] - 1) % (mx - 1)) + 1
                IN p[1] >= 1 /\ p[1] <= (mx - 1) * (mx - 1) /\ p[2] = SigCell(S, mx, a, b)
          /\ Len(c.sigsparse) = Cardinality({<<Cardinality(k.s), Cardinality(k.t)>> : k \in {k \in Keys(S) : KSize(k) <= mx}})
          /\ Len(c.sigsparse) = Cardinality({p[1] : p \in Rng(c.sigsparse)})>>} ELSE {})
  \cup (IF Has(c, "exact") THEN LET F(z) == ExactRec(S, mx, z) IN RecClause("exact_reciprocity", S, mx, c.exact, F) ELSE {})
  \cup (IF Has(c, "strong") THEN LET F(z) == StrongRec(S, mx, z) IN RecClause("strong_reciprocity", S, mx, c.strong, F) ELSE {})
  \cup (IF Has(c, "weak") THEN LET F(z) == WeakRec(S, mx, z) IN RecClause("weak_reciprocity", S, mx, c.weak, F) ELSE {})
  \cup (IF Has(c, "exact") /\ Has(c, "strong") /\ Has(c, "weak") THEN
          {<<"exact_le_strong_le_weak",
             \A p \in Rng(c.exact), q \in Rng(c.strong), r \in Rng(c.weak) : (p[1] = q[1] /\ q[1] = r[1]) =>
                 RatLe(<<p[2][1], p[2][2]>>, <<q[2][1], q[2][2]>>) /\ RatLe(<<q[2][1], q[2][2]>>, <<r[2][1], r[2][2]>>)>>,
           <<"ratios_in_unit_interval",
             \A p \in Rng(c.exact) \cup Rng(c.strong) \cup Rng(c.weak) : 0 <= p[2][1] /\ p[2][1] <= p[2][2]>>}
        ELSE {})
  \cup (IF Has(c, "deg") THEN
          {<<"in_degree", \A r \in Rng(c.deg) : r.indeg = InDeg(S, r.n, FilterOf(r))>>,
           <<"out_degree", \A r \in Rng(c.deg) : r.outdeg = OutDeg(S, r.n, FilterOf(r))>>} ELSE {})
  \cup (IF Has(c, "seqs") THEN
          {<<"in_degree_sequence", \A r \in Rng(c.seqs) :
                /\ Len(r.inseq) = Cardinality(S.nodes) /\ {p[1] : p \in Rng(r.inseq)} = S.nodes
                /\ \A p \in Rng(r.inseq) : p[2] = InDeg(S, p[1], FilterOf(r))>>,
           <<"out_degree_sequence", \A r \in Rng(c.seqs) :
                /\ Len(r.outseq) = Cardinality(S.nodes) /\ {p[1] : p \in Rng(r.outseq)} = S.nodes
                /\ \A p \in Rng(r.outseq) : p[2] = OutDeg(S, p[1], FilterOf(r))>>} ELSE {})
R == INSTANCE CaseRunner WITH Clauses <- C12Clauses
TInit == R!CInit
TNext == R!CNext
=============================================================================
