---------------------------- MODULE Trace_C10 ----------------------------
(* C10: graphs returned by hypergraphx.representations.projections and the       *)
(* hypergraph returned by simplicial_complex, against Projections.tla.            *)
(* The harness numbers the vertices of a returned networkx graph 0..V-1 (by       *)
(* identity of the vertex object) and logs: nodes (vertex numbers), edges         *)
(* (pairs of vertex numbers, plus the weight as <<num, den>> where relevant) and   *)
(* the returned id table as pairs <<vertex number, node or hyperedge>>.            *)
EXTENDS Dec, Projections
VARIABLES ci, nbad

Ret(g)     == ~Has(g, "raised")
NoDup(sq)  == Len(sq) = Cardinality(Rng(sq))
On(tb, V)  == {p \in Rng(tb) : p[1] \in V}                  \* the id table restricted to the vertex set V
At(tb, v)  == (CHOOSE p \in Rng(tb) : p[1] = v)[2]
\* the pairs T (a set of <<vertex, object>>) are a bijection between V and X
Bij(T, V, X) == /\ {p[1] : p \in T} = V /\ {p[2] : p \in T} = X
                /\ Cardinality(T) = Cardinality(V) /\ Cardinality(V) = Cardinality(X)
Thr(r) == <<r.s[1], r.s[2]>>

BipClauses(c, S) ==
  LET g == c.bip IN
  IF ~Ret(g) THEN {<<"bipartite:returned", FALSE>>} ELSE
  LET V   == Rng(g.nodes)
      nid == {<<p[1], p[2]>> : p \in On(g.nid, V)}
      kid == {<<p[1], DecKey(p[2])>> : p \in On(g.kid, V)}
      NV  == {p[1] : p \in nid}
      KV  == {p[1] : p \in kid}
      ok  == /\ NoDup(g.nodes) /\ NV \cup KV = V /\ NV \cap KV = {}
             /\ Bij(nid, NV, S.nodes) /\ Bij(kid, KV, Keys(S))
      N(v) == (CHOOSE p \in nid : p[1] = v)[2]
      Kk(v) == (CHOOSE p \in kid : p[1] = v)[2]
      Norm(e) == IF e[1] \in NV THEN <<e[1], e[2]>> ELSE <<e[2], e[1]>>
  IN {<<"bipartite:vertices_and_id_table", ok>>,
      <<"bipartite:edges", ok =>
          /\ \A e \in Rng(g.edges) : Norm(e)[1] \in NV /\ Norm(e)[2] \in KV
          /\ {<<N(Norm(e)[1]), Kk(Norm(e)[2])>> : e \in Rng(g.edges)} = BipEdges(S)>>}

CliqueClauses(c, S) ==
  {<<"clique:returned", \A g \in Rng(c.cliq) : Ret(g)>>,
   <<"clique:vertices", \A g \in Rng(c.cliq) : Ret(g) =>
        /\ NoDup(g.nodes) /\ Rng(g.nodes) \subseteq S.nodes
        /\ g.keep => Rng(g.nodes) = S.nodes>>,
   <<"clique:edges", \A g \in Rng(c.cliq) : Ret(g) =>
        /\ \A e \in Rng(g.edges) : e[1] # e[2] /\ {e[1], e[2]} \subseteq Rng(g.nodes)
        /\ {{e[1], e[2]} : e \in Rng(g.edges)} = CliqueEdges(S)>>}

\* (un)directed line graphs share the vertex clause
LineVerticesOK(g, S) ==
  LET V == Rng(g.nodes) IN
  /\ NoDup(g.nodes)
  /\ Bij({<<p[1], DecKey(p[2])>> : p \in On(g.ids, V)}, V, Keys(S))
KeyOf(g, v) == DecKey(At(g.ids, v))
LineClauses(c, S) ==
  LET L == Rng(c.line) IN
  {<<"line_graph:returned", \A g \in L : Ret(g)>>,
   <<"line_graph:vertices_and_id_table", \A g \in L : Ret(g) => LineVerticesOK(g, S)>>,
   <<"line_graph:edges", \A g \in L : (Ret(g) /\ LineVerticesOK(g, S)) =>
        /\ \A e \in Rng(g.edges) : e[1] # e[2] /\ {e[1], e[2]} \subseteq Rng(g.nodes)
        /\ {{KeyOf(g, e[1]), KeyOf(g, e[2])} : e \in Rng(g.edges)} = LineEdges(S, g.dist, Thr(g))>>,
   <<"line_graph:weights", \A g \in L : (Ret(g) /\ LineVerticesOK(g, S) /\ g.weighted) =>
        \A e \in Rng(g.edges) : {e[1], e[2]} \subseteq Rng(g.nodes) =>
            /\ e[3][2] > 0
            /\ QEq(<<e[3][1], e[3][2]>>, LineSim(g.dist, KeyOf(g, e[1]), KeyOf(g, e[2])))>>}

DirLineClauses(c, S) ==
  LET L == Rng(c.dline) IN
  {<<"directed_line_graph:returned", \A g \in L : Ret(g)>>,
   <<"directed_line_graph:vertices_and_id_table", \A g \in L : Ret(g) => LineVerticesOK(g, S)>>,
   <<"directed_line_graph:arcs", \A g \in L : (Ret(g) /\ LineVerticesOK(g, S)) =>
        /\ \A e \in Rng(g.edges) : {e[1], e[2]} \subseteq Rng(g.nodes)
        /\ {<<KeyOf(g, e[1]), KeyOf(g, e[2])>> : e \in {x \in Rng(g.edges) : x[1] # x[2]}} = DirLineArcs(S, g.dist, Thr(g))>>,
   <<"directed_line_graph:weights", \A g \in L : (Ret(g) /\ LineVerticesOK(g, S) /\ g.weighted) =>
        \A e \in Rng(g.edges) : {e[1], e[2]} \subseteq Rng(g.nodes) =>
            /\ e[3][2] > 0
            /\ QEq(<<e[3][1], e[3][2]>>, DirSim(g.dist, KeyOf(g, e[1]), KeyOf(g, e[2])))>>}

\* the three closure clauses exactly as worded; the empty hyperedge the code also emits is tolerated
SimplicialClauses(c, S) ==
  IF ~Ret(c.simp) THEN {<<"simplicial:returned", FALSE>>} ELSE
  LET F == {Rng(e.s) : e \in Rng(c.simp.edges)} IN
  {<<"simplicial:contains_every_hyperedge", \A k \in Keys(S) : KN(k) \in F>>,
   <<"simplicial:contains_every_nonempty_subset", Faces(S) \subseteq F>>,
   <<"simplicial:only_subsets_of_hyperedges", \A f \in F \ {{}} : \E k \in Keys(S) : f \subseteq KN(k)>>}

C10Clauses(c) ==
  LET S == DecState(c.st) IN
  IF c.kind = "dir" THEN DirLineClauses(c, S)
  ELSE BipClauses(c, S) \cup CliqueClauses(c, S) \cup LineClauses(c, S) \cup SimplicialClauses(c, S)
R == INSTANCE CaseRunner WITH Clauses <- C10Clauses
TInit == R!CInit
TNext == R!CNext
=============================================================================
