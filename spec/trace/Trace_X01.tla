---------------------------- MODULE Trace_X01 ----------------------------
(* X01: what hypergraphx.linalg returns for the multi-order, annealed and temporal   *)
(* matrix families, against MatricesX.tla.                                            *)
(* Logged values.  An integer matrix is [M : rows of integers, shape : <<R, C>>]; a   *)
(* rational matrix additionally has q > 0 and stands for M / q (the harness puts the  *)
(* returned floats over their common denominator and checks that this reproduces      *)
(* them); a node mapping is map : <<<<row index (0-based), node>>, ...>>; a call that  *)
(* raised (or whose value could not be read) is [raised : TRUE].  Clause names are     *)
(* "<function>:<aspect>" so that a rejection names the function.                       *)
EXTENDS Dec, MatricesX
VARIABLES ci, nbad

\* DecState of Dec.tla (the same value), decoding every logged hyperedge once
DecStateL(j) ==
  LET ps == {<<DecKey(e.k), e>> : e \in Rng(j.edges)}
  IN [nodes |-> Rng(j.nodes),
      E     |-> [k \in {p[1] : p \in ps} |-> LET e == (CHOOSE p \in ps : p[1] = k)[2] IN [w |-> e.w, md |-> e.md]],
      nmd   |-> Pairs2Fun(j.nmd),
      hmd   |-> j.hmd,
      wtd   |-> j.wtd]

Ret(m)    == ~Has(m, "raised")
NR(m)     == m.shape[1]
NC(m)     == m.shape[2]
Shaped(m) == Len(m.M) = NR(m) /\ \A i \in 1..NR(m) : Len(m.M[i]) = NC(m)
Square(m) == Shaped(m) /\ NR(m) = NC(m)
MapNodes(m) == {p[2] : p \in Rng(m.map)}
\* the mapping is a bijection between the row indices 0..R-1 and the node set X
MapOK(m, X) == /\ Len(m.map) = NR(m)
               /\ {p[1] : p \in Rng(m.map)} = 0..(NR(m) - 1)
               /\ MapNodes(m) = X /\ Cardinality(X) = NR(m)
NodeAt(mp, i) == (CHOOSE p \in Rng(mp) : p[1] = i - 1)[2]
RowOf(mp, n)  == (CHOOSE p \in Rng(mp) : p[2] = n)[1] + 1
SquareIs(m, mp, F(_, _)) ==
  /\ Square(m)
  /\ \A i, j \in 1..NR(m) : m.M[i][j] = F(NodeAt(mp, i), NodeAt(mp, j))
RECURSIVE SeqSum(_, _)
SeqSum(sq, i) == IF i > Len(sq) THEN 0 ELSE sq[i] + SeqSum(sq, i + 1)
BagOfPairs(ps) == [v \in {p[2] : p \in ps} |-> Cardinality({p \in ps : p[2] = v})]
ColSupport(m, j) == {i \in 1..NR(m) : m.M[i][j] # 0}
RowSupport(m, i) == {j \in 1..NC(m) : m.M[i][j] # 0}
\* node x hyperedge matrix read through the mapping mp: the bag of its columns <<member set, set of non-zero values>>
ColsBag(m, mp) == BagOfPairs({<<j, <<{NodeAt(mp, i) : i \in ColSupport(m, j)},
                                     {m.M[i][j] : i \in ColSupport(m, j)}>>>> : j \in 1..NC(m)})
KeysBag(K, W(_)) == BagOfPairs({<<k, <<KN(k), {W(k)}>>>> : k \in K})

(* ---------------------------------------------------------------------------------- *)
(* Hypergraph                                                                          *)
RowMapGood(c, S) == Ret(c.rowmap) /\ MapOK(c.rowmap, S.nodes)

\* X01-a
MultiClauses(c, S) ==
  LET mp == c.rowmap.map
      D  == MaxOrder(S)
      Sig(r)   == [d \in 1..D |-> <<r.sig[d][1], r.sig[d][2]>>]
      Plain(r) == ~(r.dw /\ OrdersAbsent(S) # {})
      Sq(r)    == Square(r) /\ NR(r) = Cardinality(S.nodes)
      Entries(r) == \A i, j \in 1..NR(r) :
                       RSame(<<r.M[i][j], r.q>>, MultiLap(S, Sig(r), r.ow, r.dw, NodeAt(mp, i), NodeAt(mp, j)))
      Shape(r) == /\ \A i \in 1..NR(r) : SeqSum(r.M[i], 1) = 0
                  /\ \A i, j \in 1..NR(r) : r.M[i][j] = r.M[j][i]
      Rs == Rng(c.multi)
  IN IF ~Has(c, "multi") THEN {} ELSE
     {<<"compute_multiorder_laplacian:returned", \A r \in Rs : Ret(r)>>,
      <<"compute_multiorder_laplacian:shape", \A r \in Rs : Ret(r) => (Sq(r) /\ Len(r.sig) = D)>>,
      <<"compute_multiorder_laplacian:entries",
            \A r \in Rs : (Ret(r) /\ Sq(r) /\ RowMapGood(c, S) /\ Plain(r)) => Entries(r)>>,
      <<"compute_multiorder_laplacian:entries_when_an_order_is_absent",
            \A r \in Rs : (Ret(r) /\ Sq(r) /\ RowMapGood(c, S) /\ ~Plain(r)) => Entries(r)>>,
      <<"compute_multiorder_laplacian:symmetric_zero_row_sums", \A r \in Rs : (Ret(r) /\ Sq(r)) => Shape(r)>>}

\* X01-b
IncAllClauses(c, S) ==
  LET mp == c.rowmap.map
      W(k) == S.E[k].w
      Rs == Rng(c.incall)
      Orders(r) == /\ OrdersPresent(S) \subseteq {m.d : m \in Rng(r.mats)}
                   /\ Cardinality({m.d : m \in Rng(r.mats)}) = Len(r.mats)
      AllNodes(m) == LET K == OfOrder(S, m.d) IN
                     Shaped(m) /\ NR(m) = Cardinality(S.nodes) /\ ColsBag(m, mp) = KeysBag(K, W)
      \* without a mapping: only what is the same under every numbering of the rows
      OwnNodes(m) == LET K == OfOrder(S, m.d)   X == NodesOfKeys(K) IN
                     /\ Shaped(m) /\ NR(m) = Cardinality(X) /\ NC(m) = Cardinality(K)
                     /\ \A j \in 1..NC(m) : Cardinality(ColSupport(m, j)) = m.d + 1
                     /\ Cardinality({ColSupport(m, j) : j \in 1..NC(m)}) = NC(m)
                     /\ BagOfPairs({<<i, Cardinality(RowSupport(m, i))>> : i \in 1..NR(m)})
                           = BagOfPairs({<<n, DegK(K, n)>> : n \in X})
                     /\ BagOfPairs({<<j, {m.M[i][j] : i \in ColSupport(m, j)}>> : j \in 1..NC(m)})
                           = BagOfPairs({<<k, {W(k)}>> : k \in K})
  IN IF ~Has(c, "incall") THEN {} ELSE
     {<<"incidence_matrices_all_orders:returned", \A r \in Rs : Ret(r)>>,
      <<"incidence_matrices_all_orders:orders", \A r \in Rs : Ret(r) => Orders(r)>>,
      <<"incidence_matrices_all_orders:entries_over_all_nodes",
            \A r \in Rs : (Ret(r) /\ r.keep /\ RowMapGood(c, S)) => \A m \in Rng(r.mats) : AllNodes(m)>>,
      <<"incidence_matrices_all_orders:entries_over_the_nodes_of_the_order",
            \A r \in Rs : (Ret(r) /\ ~r.keep) => \A m \in Rng(r.mats) : OwnNodes(m)>>}

\* X01-c; values are logged as <<node, num, den>>
FactorKeys(r, S) == {p[1] : p \in Rng(r.vals)} = S.nodes /\ Len(r.vals) = Cardinality(S.nodes)
FactorClauses(c, S) ==
  LET Rs == Rng(c.factor) IN
  IF ~Has(c, "factor") THEN {} ELSE
     {<<"adjacency_factor:returned", \A r \in Rs : Ret(r)>>,
      <<"adjacency_factor:keys", \A r \in Rs : Ret(r) => FactorKeys(r, S)>>,
      <<"adjacency_factor:values", \A r \in Rs : Ret(r) =>
            \A p \in Rng(r.vals) : p[1] \in S.nodes => RSame(<<p[2], p[3]>>, RInt(AdjFactor(S, r.t, p[1])))>>}

\* X01-g: judged on the matrices that were passed (the Laplacians the library returned, as logged)
CommClauses(c) ==
  LET Rs == Rng(c.comm) IN
  IF ~Has(c, "comm") THEN {} ELSE
     {<<"are_commuting:returned", \A r \in Rs : Ret(r)>>,
      <<"are_commuting:answer", \A r \in Rs : Ret(r) => (r.ret <=> AllCommute(r.ms))>>}

HgClauses(c) ==
  LET S == DecStateL(c.st) IN
  {<<"row_mapping:bijection", RowMapGood(c, S)>>}
  \cup MultiClauses(c, S) \cup IncAllClauses(c, S) \cup FactorClauses(c, S) \cup CommClauses(c)

(* ---------------------------------------------------------------------------------- *)
(* TemporalHypergraph                                                                  *)
\* X01-d.  The mapping of (d, t) may cover any node set between the nodes of the order-d hyperedges alive at t
\* and all nodes; entries are demanded for the nodes it covers
TMapOK(r, S) == /\ MapOK(r, MapNodes(r))
                /\ NodesOfKeys(KeysAtD(S, r.d, r.t)) \subseteq MapNodes(r) /\ MapNodes(r) \subseteq S.nodes
TEntry(r, mp, S) == LET K == KeysAtD(S, r.d, r.t)   F(n, m) == AdjK(K, n, m) IN SquareIs(r, mp, F)
TOrders(x, top, S) == /\ {d \in OrdersPresent(S) : d <= top} \subseteq {r.d : r \in Rng(x.mats)}
                      /\ Cardinality({<<r.d, r.t>> : r \in Rng(x.mats)}) = Len(x.mats)
TTimes(x, top, S) == \A d \in OrdersPresent(S) : d <= top =>
                        TimesOfOrder(S, d) \subseteq {r.t : r \in {q \in Rng(x.mats) : q.d = d}}
\* the mapping returned (by the all-orders call with return_mapping) for order d at time t, if there is a usable one
HasMapFor(c, S, d, t) == Ret(c.tall) /\ \E q \in Rng(c.tall.mats) : q.d = d /\ q.t = t /\ TMapOK(q, S)
MapFor(c, S, d, t)    == (CHOOSE q \in Rng(c.tall.mats) : q.d = d /\ q.t = t /\ TMapOK(q, S)).map

TAllClauses(c, S) ==
  LET x == c.tall   y == c.tallnm   top == MaxOrder(S)
      ytop == IF y.maxo = 0 THEN top ELSE y.maxo
  IN {<<"temporal_adjacency_matrices_all_orders:returned", Ret(x) /\ Ret(y)>>,
      <<"temporal_adjacency_matrices_all_orders:orders",
            (Ret(x) => TOrders(x, top, S)) /\ (Ret(y) => TOrders(y, ytop, S))>>,
      <<"temporal_adjacency_matrices_all_orders:times",
            (Ret(x) => TTimes(x, top, S)) /\ (Ret(y) => TTimes(y, ytop, S))>>,
      <<"temporal_adjacency_matrices_all_orders:mapping_bijection", Ret(x) => \A r \in Rng(x.mats) : TMapOK(r, S)>>,
      <<"temporal_adjacency_matrices_all_orders:entries",
            /\ Ret(x) => \A r \in Rng(x.mats) : TMapOK(r, S) => TEntry(r, r.map, S)
            /\ Ret(y) => \A r \in Rng(y.mats) : HasMapFor(c, S, r.d, r.t) => TEntry(r, MapFor(c, S, r.d, r.t), S)>>}

TByClauses(c, S) ==
  LET Rs == Rng(c.tby)
      Recs(r) == {[d |-> r.d, t |-> m.t, M |-> m.M, shape |-> m.shape, map |-> IF r.retmap THEN m.map ELSE <<>>] : m \in Rng(r.mats)}
  IN IF ~Has(c, "tby") THEN {} ELSE
     {<<"temporal_adjacency_matrix_by_order:returned", \A r \in Rs : Ret(r)>>,
      <<"temporal_adjacency_matrix_by_order:times", \A r \in Rs : Ret(r) =>
            /\ TimesOfOrder(S, r.d) \subseteq {m.t : m \in Rng(r.mats)}
            /\ Cardinality({m.t : m \in Rng(r.mats)}) = Len(r.mats)>>,
      <<"temporal_adjacency_matrix_by_order:mapping_bijection", \A r \in Rs : (Ret(r) /\ r.retmap) =>
            \A m \in Recs(r) : TMapOK(m, S)>>,
      <<"temporal_adjacency_matrix_by_order:entries", \A r \in Rs : Ret(r) => \A m \in Recs(r) :
            IF r.retmap THEN TMapOK(m, S) => TEntry(m, m.map, S)
            ELSE HasMapFor(c, S, m.d, m.t) => TEntry(m, MapFor(c, S, m.d, m.t), S)>>}

\* X01-e.  tt snapshots: their number, or the span first..last time (one choice for the whole matrix).  Entries
\* outside the returned shape read as 0 here; that the shape is N x N is a clause of its own
Denoms(S) == {NSnapshots(S), TimeSpan(S)}
AnnClauses(c, S) ==
  LET a == c.ann
      V(n, m) == LET i == RowOf(a.map, n)   j == RowOf(a.map, m)
                 IN IF i <= NR(a) /\ j <= NC(a) THEN a.M[i][j] ELSE 0
      Good == Ret(a) /\ MapOK([map |-> a.map, shape |-> <<Cardinality(S.nodes), 0>>], S.nodes) /\ Shaped(a)
  IN {<<"annealed_adjacency_matrix:returned", Ret(a)>>,
      <<"annealed_adjacency_matrix:mapping_bijection", Ret(a) => MapOK([map |-> a.map, shape |-> <<Cardinality(S.nodes), 0>>], S.nodes)>>,
      <<"annealed_adjacency_matrix:shape", Ret(a) => (Square(a) /\ NR(a) = Cardinality(S.nodes))>>,
      <<"annealed_adjacency_matrix:entries", Good =>
            \E tt \in Denoms(S) : \A n, m \in S.nodes : V(n, m) * tt = AnnealedNum(S, n, m) * a.q>>,
      <<"annealed_adjacency_matrix:symmetric", Good => \A n, m \in S.nodes : V(n, m) = V(m, n)>>}

\* X01-f.  No mapping is returned: the rows are the nodes X (all nodes, or the nodes that have a hyperedge), numbered as
\* T's own mapping numbers them or - searched only when that reading fails - by any ONE numbering for all orders
AnnAllClauses(c, S) ==
  LET a == c.annall
      Ms == Rng(a.mats)
      RR  == IF Ms = {} THEN 0 ELSE NR(CHOOSE m \in Ms : TRUE)
      U  == NodesOfKeys(Keys(S))
      X  == IF RR = Cardinality(S.nodes) THEN S.nodes ELSE U
      Shapes == \A m \in Ms : Square(m) /\ NR(m) = RR
      GoodWith(f, tt) == \A m \in Ms : \A i, j \in 1..RR : m.M[i][j] * tt = AnnealedNumD(S, m.d, f[i], f[j]) * m.q
      Good(f) == \E tt \in Denoms(S) : GoodWith(f, tt)
      Own == [i \in 1..RR |-> NodeAt(c.tmap, i)]
      OwnOK == X = S.nodes /\ MapOK([map |-> c.tmap, shape |-> <<RR, 0>>], S.nodes)
  IN {<<"annealed_adjacency_matrices_all_orders:returned", Ret(a)>>,
      <<"annealed_adjacency_matrices_all_orders:orders", Ret(a) =>
            /\ OrdersPresent(S) \subseteq {m.d : m \in Ms}
            /\ Cardinality({m.d : m \in Ms}) = Len(a.mats)>>,
      <<"annealed_adjacency_matrices_all_orders:shape", (Ret(a) /\ Ms # {}) => (Shapes /\ RR = Cardinality(X))>>,
      <<"annealed_adjacency_matrices_all_orders:entries", (Ret(a) /\ Ms # {} /\ Shapes /\ RR = Cardinality(X)) =>
            \/ OwnOK /\ Good(Own)
            \/ RR <= 5 /\ \E f \in {g \in [1..RR -> X] : \A p, q \in 1..RR : p # q => g[p] # g[q]} : Good(f)>>}

TFactorClauses(c, S) ==
  LET Rs == Rng(c.factor) IN
  IF ~Has(c, "factor") THEN {} ELSE
     {<<"adjacency_factor:returned", \A r \in Rs : Ret(r)>>,
      <<"adjacency_factor:keys", \A r \in Rs : Ret(r) => FactorKeys(r, S)>>,
      <<"adjacency_factor:values", \A r \in Rs : Ret(r) => \E tt \in Denoms(S) :
            \A p \in Rng(r.vals) : p[1] \in S.nodes => RSame(<<p[2], p[3]>>, AnnFactor(S, tt, r.t, p[1]))>>}

TempClauses(c) ==
  LET S == DecStateL(c.st) IN
  TAllClauses(c, S) \cup TByClauses(c, S) \cup AnnClauses(c, S) \cup AnnAllClauses(c, S) \cup TFactorClauses(c, S)

X01Clauses(c) == IF c.kind = "tempx" THEN TempClauses(c) ELSE HgClauses(c)
R == INSTANCE CaseRunner WITH Clauses <- X01Clauses
TInit == R!CInit
TNext == R!CNext
=============================================================================
