---------------------------- MODULE Oracle_C18 ----------------------------
(* C18, random walk part.  A case is a connected hypergraph (abstract state   *)
(* logged through the public API, nodes 1..N = labels 0..N-1) plus the        *)
(* sampled walks returned by random_walk.  TLC                                *)
(*   decides  that the input is inside the statement's quantifier, that the   *)
(*            specification's own K and Pi satisfy the claimed identities on  *)
(*            this very hypergraph (exact rationals), and that every sampled  *)
(*            walk only takes K-positive steps (its start and length are      *)
(*            "model_" clauses: not promised by the statement);               *)
(*   emits    K (rows of <<num, den>>) and Pi as exact rationals: the harness *)
(*            compares transition_matrix, RW_stationary_state and every       *)
(*            random_walk_density step with them.                             *)
EXTENDS Dec, RandWalk, Derive
VARIABLES ci, nbad

NodesOK(S) == S.nodes = 1..Cardinality(S.nodes) /\ Cardinality(S.nodes) >= 2
InScope(S) == NodesOK(S) /\ Cardinality(Components(S, NoF)) = 1
            /\ \A k \in Keys(S) : KSize(k) >= 2

C18Clauses(c) ==
  LET S == DecState(c.st) IN
  IF ~InScope(S) THEN {<<"input_in_scope", FALSE>>} ELSE
  LET K == RWKMat(S) pi == RWPiVec(S) IN
  {<<"spec_row_stochastic", \A i \in S.nodes : LET F(j) == K[i, j] IN RSumSet(F, S.nodes) = ROne>>,
   <<"spec_pi_stationary", RWPushK(S.nodes, K, pi) = pi /\ RWMass(S, pi) = ROne>>}
  \cup (IF Has(c, "walks") THEN
         {<<"model_walk_starts_at_s", \A w \in Rng(c.walks) : Len(w.nodes) >= 1 /\ w.nodes[1] = w.s>>,
          <<"model_walk_length", \A w \in Rng(c.walks) : Len(w.nodes) = w.time + 1>>,
          <<"walk_steps_share_a_hyperedge", \A w \in Rng(c.walks) : RWPathAllowed(S, w.nodes)>>}
        ELSE {})

C18Values(c) ==
  LET S == DecState(c.st) n == Cardinality(S.nodes) IN
  IF ~InScope(S) THEN [ok |-> FALSE] ELSE
  [ok |-> TRUE,
   K  |-> [i \in 1..n |-> [j \in 1..n |-> RWK(S, i, j)]],
   Pi |-> [i \in 1..n |-> RWPi(S, i)]]

R == INSTANCE OracleRunner WITH Clauses <- C18Clauses, Values <- C18Values
TInit == R!OInit
TNext == R!ONext
=============================================================================
