---------------------------- MODULE SynchDispatch ----------------------------
(***************************************************************************)
(* Extension X10: which Master Stability Function is evaluated               *)
(* (dynamics/synch.py: higher_order_MSF; dynamics/utils.py: is_all_to_all,   *)
(* is_natural_coupling).                                                     *)
(*                                                                           *)
(* higher_order_MSF is a three-way decision over the container state S       *)
(* (HGX.tla, Kind = "hg") and the coupling functions; the numerical          *)
(* integration behind each branch (MSF, MSF_multi_coupling: Sprott's         *)
(* algorithm on floats) is NOT specified here - only which one is called,    *)
(* how often and on which arguments.                                         *)
(*                                                                           *)
(* Statements (what the code comments and printed messages promise):         *)
(*                                                                           *)
(* X10-a  is_all_to_all(H): a weighted H is never all-to-all ("only          *)
(*        unweighted higher-order networks are considered").  An unweighted  *)
(*        H is all-to-all iff for every order d = 1..max_order it has all    *)
(*        C(N, d+1) hyperedges of d+1 nodes over its N nodes (isolated nodes *)
(*        count), i.e. iff its hyperedges of at least two nodes are exactly  *)
(*        the subsets of the node set with 2..MaxSize nodes.  Singleton      *)
(*        hyperedges are not looked at.  A hypergraph without hyperedges:    *)
(*        nothing demanded (max_order of nothing).                           *)
(* X10-b  is_natural_coupling(JHs, dim): TRUE iff all the coupling           *)
(*        Jacobians are the same function (here: the same constant matrix,   *)
(*        named by an id).                                                   *)
(* X10-c  higher_order_MSF(H, ..., sigmas, JHs, X0, interval, diffusive):    *)
(*        branch "single" iff natural /\ diffusive_like: MSF is called       *)
(*          twice with JHs[0] - on `interval`, then on the N-1 non-smallest  *)
(*          eigenvalues of the multiorder Laplacian - and the result is the  *)
(*          triple (first, second, spectrum) with N eigenvalues;             *)
(*        else branch "multi" iff H is all-to-all: MSF_multi_coupling is     *)
(*          called twice - on `interval`, then on the one point sigma_1 * N -*)
(*          and the result is (first, second, [sigma_1 * N]);                *)
(*        else "none": nothing is integrated and None is returned.           *)
(*        Exactly one branch is taken; the hypergraph is not modified.       *)
(***************************************************************************)
EXTENDS HGX

RECURSIVE SDBinom(_, _)
SDBinom(n, k) == IF k = 0 THEN 1 ELSE IF n < k THEN 0 ELSE (SDBinom(n - 1, k - 1) * n) \div k

SDN(S)        == Cardinality(S.nodes)
SDCount(S, z) == Cardinality({k \in Keys(S) : KSize(k) = z})

\* the statement: the hyperedges of >= 2 nodes are all the subsets with 2..MaxSize nodes
SDBig(S)      == {KN(k) : k \in {c \in Keys(S) : KSize(c) >= 2}}
SDAllToAll(S) == /\ ~S.wtd
                 /\ SDBig(S) = {s \in SUBSET S.nodes : Cardinality(s) >= 2 /\ Cardinality(s) <= MaxSize(S)}

\* the code's shape: one count per order
SDAllToAllByCount(S) == /\ ~S.wtd
                        /\ \A z \in 2..MaxSize(S) : SDCount(S, z) = SDBinom(SDN(S), z)

\* couplings: a sequence of ids of constant Jacobians
SDNatural(js) == \A i, j \in DOMAIN js : js[i] = js[j]

SDBranch(S, js, diffusive) == IF SDNatural(js) /\ diffusive THEN "single"
                              ELSE IF SDAllToAll(S) THEN "multi" ELSE "none"

\* degree every node has in an all-to-all hypergraph: one hyperedge per choice of the other z-1 members
SDFullDegree(S) == LET F(z) == SDBinom(SDN(S) - 1, z - 1) IN SumSet(F, 2..MaxSize(S))
=============================================================================
