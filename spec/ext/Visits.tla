---------------------------- MODULE Visits ----------------------------
(***************************************************************************)
(* Extension X03: visits, degree statistics and similarity measures.        *)
(*                                                                           *)
(* Statements (what the docstrings of /repo promise, over HGX states):       *)
(*                                                                           *)
(* X03-a  utils.visits._bfs(hg, start, max_depth, order, size) returns, for  *)
(*        a start node of the hypergraph, exactly Ball(S, start, depth, f):  *)
(*        the nodes within max_depth hops of start in the hypergraph of the  *)
(*        hyperedges passing the size/order filter f (order = size - 1);     *)
(*        max_depth = None is "not limited" (the component of start);        *)
(*        a start node that is not in the hypergraph is rejected.            *)
(* X03-b  utils.visits._dfs: the same statement (same docstring).  The       *)
(*        machine below has the repaired depth-limited DFS ("dfs") and the   *)
(*        code-shaped one ("dfs_code": mark on pop, never expand again);     *)
(*        TLC refutes DfsCodeExact for the latter on 4 nodes, depth 2: the   *)
(*        candidate defect X03-D1.  Demanded of the code without dispute:    *)
(*        dfs = Ball when max_depth is None, dfs \subseteq Ball otherwise.   *)
(* X03-c  Ball laws: Ball(n,0) = {n}; monotone in the depth; one more hop is *)
(*        the union of the 1-balls; symmetric; Ball(n,|nodes|-1) =           *)
(*        Ball(n,None) = CompOf(n) = utils.cc.node_connected_component.      *)
(* X03-d  measures.degree.degree / degree_sequence / degree_distribution:    *)
(*        number of filtered hyperedges (records: one per direction, time,   *)
(*        layer) holding the node; the map node -> degree over all nodes;    *)
(*        its histogram.  Sum of degrees = sum of sizes (per size z: z times *)
(*        the number of hyperedges of size z).                               *)
(* X03-e  measures.degree.degree_correlation: (M-1) x (M-1) matrix, M the    *)
(*        largest hyperedge size; entry [i,j] is the Pearson coefficient of  *)
(*        the degree sequences at sizes i+2 and j+2: sign = sign(Cov) and    *)
(*        r^2 = Cov^2 / (Var_i * Var_j) with the integer moments below.      *)
(*        Undefined (a constant sequence): anything is accepted, but a NaN   *)
(*        where it is defined is not.                                        *)
(* X03-f  measures.multiplex.edge_overlap(h, e) = sum over the layers of the *)
(*        weight of e in that layer (0 where absent; weight 1 each when      *)
(*        unweighted).  measures/multiplex/degree.py defines nothing (the    *)
(*        whole file is a string literal); its intended per-layer degree is  *)
(*        LayerDegree, whose sum over layers is MultiplexHypergraph.degree.  *)
(* X03-g  measures.edge_similarity: intersection = |a \cap b|; for           *)
(*        a \cup b # {}: jaccard_similarity = |a \cap b| / |a \cup b|,       *)
(*        jaccard_distance = 1 - similarity.  Both sets empty: undefined     *)
(*        (the code raises ZeroDivisionError; nothing is demanded).          *)
(* X03-h  utils.cc module-level functions (Derive!CCClauses) called directly *)
(*        on the module, and isolated_nodes / is_isolated on directed and    *)
(*        temporal hypergraphs: n is isolated iff Neigh(n, f) = {}.          *)
(***************************************************************************)
EXTENDS Derive

---------------------------------------------------------------------------
(* Balls.  A depth < 0 stands for max_depth = None.                         *)
RECURSIVE BallD(_, _, _, _)
BallD(S, n, d, f) ==
  IF d = 0 THEN {n}
  ELSE LET B == BallD(S, n, d - 1, f) IN B \cup UNION {Neigh(S, m, f) : m \in B}
Ball(S, n, d, f) == IF d < 0 THEN CompOf(S, n, f) ELSE BallD(S, n, d, f)

---------------------------------------------------------------------------
(* The visit as a state machine: a worklist of <<node, depth>> entries,     *)
(* taken from the head ("bfs": deque.popleft) or from the end ("dfs",       *)
(* "dfs_code": list.pop); the neighbours of the node taken are appended in  *)
(* an arbitrary order (the code iterates over a Python set), so VSucc is a  *)
(* SET of successors and TLC explores every order.                          *)
RECURSIVE Perms(_)
Perms(A) == IF A = {} THEN {<<>>}
            ELSE UNION {{<<a>> \o p : p \in Perms(A \ {a})} : a \in A}

VIdle == [phase |-> "idle", algo |-> "", start |-> 0, f |-> NoF, md |-> 0,
          fr |-> <<>>, vis |-> {}, best |-> <<>>, steps |-> 0]
VStart(algo, n, md, f) ==
  [phase |-> "run", algo |-> algo, start |-> n, f |-> f, md |-> md,
   fr |-> <<<<n, 0>>>>, vis |-> {}, best |-> <<>>, steps |-> 0]
VDone(v) == Len(v.fr) = 0

VSucc(S, v) ==
  LET L      == Len(v.fr)
      e      == IF v.algo = "bfs" THEN v.fr[1] ELSE v.fr[L]
      rest   == IF v.algo = "bfs" THEN SubSeq(v.fr, 2, L) ELSE SubSeq(v.fr, 1, L - 1)
      node   == e[1]
      d      == e[2]
      fresh  == node \notin v.vis
      \* the repaired DFS takes a node again when it is met at a smaller depth than before
      better == v.algo = "dfs" /\ ~fresh /\ d < v.best[node]
      take   == fresh \/ better
      expand == take /\ (v.md < 0 \/ d < v.md)
      vis2   == IF take THEN v.vis \cup {node} ELSE v.vis
      best2  == IF take THEN Upd(v.best, node, d) ELSE v.best
      push   == IF ~expand THEN {}
                ELSE IF v.algo = "dfs"
                     THEN {m \in Neigh(S, node, v.f) : m \notin vis2 \/ d + 1 < best2[m]}
                     ELSE Neigh(S, node, v.f) \ vis2
  IN {[v EXCEPT !.fr = rest \o [i \in 1..Len(p) |-> <<p[i], d + 1>>],
                !.vis = vis2, !.best = best2, !.steps = @ + 1] : p \in Perms(push)}

---------------------------------------------------------------------------
(* Degree statistics (exact integers).                                      *)
DegSeq(S, f) == [n \in S.nodes |-> Degree(S, n, f)]
EqF(z) == <<"eq", z>>
\* moments of the degree sequences at sizes a and b, scaled by |nodes|^2: all integers
DSum(S, a)     == LET D(n) == Degree(S, n, EqF(a)) IN SumSet(D, S.nodes)
DProd(S, a, b) == LET P(n) == Degree(S, n, EqF(a)) * Degree(S, n, EqF(b)) IN SumSet(P, S.nodes)
Cov(S, a, b)   == Cardinality(S.nodes) * DProd(S, a, b) - DSum(S, a) * DSum(S, b)
Var(S, a)      == Cov(S, a, a)
Sign(x)        == IF x > 0 THEN 1 ELSE IF x < 0 THEN -1 ELSE 0
PearsonDefined(S, a, b) == Var(S, a) * Var(S, b) > 0
PearsonSq(S, a, b)      == <<Cov(S, a, b) * Cov(S, a, b), Var(S, a) * Var(S, b)>>
PearsonSign(S, a, b)    == Sign(Cov(S, a, b))
CorrDim(S) == IF Keys(S) = {} THEN 0 ELSE IF MaxSize(S) < 2 THEN 0 ELSE MaxSize(S) - 1

RECURSIVE GCD(_, _)
GCD(a, b) == IF b = 0 THEN a ELSE GCD(b, a % b)
\* <<p, q>> is the fraction num/den in lowest terms (no products: 32-bit integers)
IsReduced(p, q, num, den) == LET g == GCD(num, den) IN g > 0 /\ p = num \div g /\ q = den \div g

(* Multiplex *)
LayerDegree(S, n, x, f) == Cardinality({k \in Incident(S, n, f) : k.x = x})
LayersHolding(S, ss)    == {k.x : k \in {c \in Keys(S) : c.s = ss}}

(* Similarity of two sets: <<numerator, denominator>>, defined iff the union is not empty *)
Inter(a, b)   == Cardinality(a \cap b)
JDefined(a, b) == a \cup b # {}
Jaccard(a, b) == <<Cardinality(a \cap b), Cardinality(a \cup b)>>
JDist(a, b)   == <<Cardinality(a \cup b) - Cardinality(a \cap b), Cardinality(a \cup b)>>
=============================================================================
