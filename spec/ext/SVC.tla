---------------------------- MODULE SVC ----------------------------
(***************************************************************************)
(* X05 - statistically validated cores, hypergraphx.filters.statistical_   *)
(* filters.get_svc(hypergraph, min_order, max_order, alpha), and the        *)
(* bipartite (node, occurrence) table _get_bipartite_representation it and *)
(* get_svh start from.  Over HGX states with Kind = "hg" and positive      *)
(* integer weights (an unweighted hypergraph has weight 1 everywhere).     *)
(* An occurrence is one unit of weight: a hyperedge of weight w occurs w   *)
(* times.  Probabilities are exact rationals <<num, den>>; 1/alpha = IA is  *)
(* an integer (alpha = 0.01 <-> IA = 100).                                  *)
(*                                                                         *)
(* X05-a (bipartite table)  The table has one row (node, b) for every node  *)
(*        of every occurrence; the occurrence indices b are exactly         *)
(*        0..N-1 with N = the total weight; the rows of one index are the   *)
(*        nodes of one hyperedge, each once; hyperedge e owns exactly       *)
(*        weight(e) indices.  So it has Sum_e weight(e)*|e| rows.           *)
(* X05-b (orders)  Groups of n nodes are tested for every n with            *)
(*        min_order <= n <= top, top = the largest hyperedge size, capped   *)
(*        by max_order when one is given; larger orders first.              *)
(* X05-c (tested groups)  At order n a set g of n nodes is tested iff it is *)
(*        contained in at least one hyperedge (of any size >= n) and is NOT *)
(*        contained in a group validated at a larger order.  Every tested   *)
(*        group is one row of the returned table, no group has two rows,    *)
(*        there are no other rows.                                          *)
(* X05-d (null-model parameters)  N = number of occurrences of all sizes    *)
(*        (total weight); K_i = number of occurrences containing node i     *)
(*        (weighted degree); w(g) = number of occurrences containing all of *)
(*        g (the sum of the weights of the hyperedges that include g) -     *)
(*        reported in column 'w'.                                           *)
(* X05-e (p-value)  pvalue(g) = P[ Bin(N, prod_{i in g} K_i / N) >= w(g) ]. *)
(* X05-f (correction)  Per order n, with m = the number of groups tested at *)
(*        that order and na = the number of nodes lying in at least one     *)
(*        hyperedge: one test has level bonf = alpha / C(na, n); the        *)
(*        threshold is i* x bonf for the largest i in 1..m such that the    *)
(*        i-th smallest of the m p-values is below i x bonf (0 if none).    *)
(* X05-g (validated flag)  fdr(g) = (pvalue(g) < threshold of its order);   *)
(*        hence exactly i* groups of the order are validated and no group   *)
(*        is validated while another of the same order with a smaller       *)
(*        p-value is not.                                                   *)
(* X05-h (shape)  One table; columns group (a tuple of n distinct nodes),   *)
(*        pvalue, fdr (and w).                                              *)
(***************************************************************************)
EXTENDS SVH       \* Wt, Pow, PowCap, Choose, ProdSet, TailNum, BelowLevel, StepUpIndex, StepUpValidated, OnALevel, MaxInt

---------------------------------------------------------------------------
(* X05-d: parameters                                                        *)
SvcN(S)      == LET F(k) == Wt(S, k) IN SumSet(F, Keys(S))
SvcK(S, i)   == LET F(k) == Wt(S, k) IN SumSet(F, {k \in Keys(S) : i \in k.s})
SvcW(S, g)   == LET F(k) == Wt(S, k) IN SumSet(F, {k \in Keys(S) : g \subseteq k.s})
SvcActive(S) == UNION {k.s : k \in Keys(S)}
SvcNa(S)     == Cardinality(SvcActive(S))

---------------------------------------------------------------------------
(* X05-a: the bipartite table, as a set R of <<node, index>> pairs           *)
BipIdx(R)        == {r[2] : r \in R}
BipMembers(R, b) == {r[1] : r \in {x \in R : x[2] = b}}
IsBipartite(S, R) ==
  /\ BipIdx(R) = 0..(SvcN(S) - 1)
  /\ \A k \in Keys(S) : Cardinality({b \in BipIdx(R) : BipMembers(R, b) = k.s}) = Wt(S, k)
\* one such table: the hyperedges in some order, each repeated by its weight
RECURSIVE OccList(_, _)
OccList(S, ks) == IF ks = {} THEN <<>>
                  ELSE LET k == CHOOSE c \in ks : TRUE IN [b \in 1..Wt(S, k) |-> k] \o OccList(S, ks \ {k})
BipOf(sq) == UNION {{<<i, b - 1>> : i \in sq[b].s} : b \in DOMAIN sq}

---------------------------------------------------------------------------
(* X05-b, X05-c: orders and candidate groups (mx = 0 stands for "no max_order") *)
SvcTop(S, mx)        == IF mx = 0 \/ mx > MaxSize(S) THEN MaxSize(S) ELSE mx
SvcOrders(S, mn, mx) == mn..SvcTop(S, mx)
SvcCand(S, n)        == UNION {{g \in SUBSET k.s : Cardinality(g) = n} : k \in Keys(S)}
\* tested at order n, given the set Vhi of groups validated at larger orders
SvcTestedRel(S, n, Vhi) == {g \in SvcCand(S, n) : \A h \in Vhi : ~(g \subseteq h)}

---------------------------------------------------------------------------
(* X05-e: the p-value of a group of n nodes is SvcPNum / N^(n*N)             *)
SvcPA(S, g)   == LET F(i) == SvcK(S, i) IN ProdSet(F, g)
SvcPB(S, n)   == Pow(SvcN(S), n)
SvcDen(S, n)  == Pow(SvcN(S), n * SvcN(S))
SvcPNum(S, g) == TailNum(SvcN(S), SvcPA(S, g), SvcPB(S, Cardinality(g)), SvcW(S, g))
SvcPValue(S, g) == <<SvcPNum(S, g), SvcDen(S, Cardinality(g))>>
(* Exact regime of one order with m tested groups: every intermediate of the *)
(* tail and of the comparison with the levels i/M (i <= m) is at most         *)
(* m * N^(n*N), which must fit in 32 bits.                                    *)
SvcRegime(N, n, m) == N >= 1 /\ n >= 1 /\ PowCap(N, n * N, MaxInt \div (IF m < 1 THEN 1 ELSE m)) # 0
ASSUME /\ SvcRegime(5, 2, 219) /\ ~SvcRegime(5, 2, 220) /\ SvcRegime(4, 3, 127) /\ ~SvcRegime(4, 3, 128) /\ ~SvcRegime(5, 3, 1)
       /\ SvcRegime(3, 6, 5) /\ ~SvcRegime(3, 6, 6) /\ ~SvcRegime(3, 7, 1) /\ SvcRegime(1, 9, 1000) /\ SvcRegime(9, 1, 5)

---------------------------------------------------------------------------
(* X05-f, X05-g: multiple testing of the set T of groups tested at order n   *)
SvcInvLevel(S, n, IA)   == IA * Choose(SvcNa(S), n)               \* 1 / bonf
SvcPValues(S, T)        == [g \in T |-> SvcPValue(S, g)]
SvcValidatedOf(S, T, n, IA) == StepUpValidated(TLCEval(SvcPValues(S, T)), SvcInvLevel(S, n, IA))
SvcIndexOf(S, T, n, IA)     == StepUpIndex(TLCEval(SvcPValues(S, T)), SvcInvLevel(S, n, IA))

(* the whole procedure, larger orders first: the table [n |-> [t |-> tested at n, v |-> validated at n]]     *)
(* for n = 1..top (top = SvcTop(S, mx)); Vhi accumulates the groups validated at the orders already done     *)
RECURSIVE SvcDown(_, _, _, _, _)
SvcDown(S, IA, n, Vhi, acc) ==
  IF n < 1 THEN acc
  ELSE LET T == TLCEval(SvcTestedRel(S, n, Vhi))
           V == TLCEval(SvcValidatedOf(S, T, n, IA))
       IN SvcDown(S, IA, n - 1, Vhi \cup V, Upd(acc, n, [t |-> T, v |-> V]))
SvcTable(S, top, IA) == SvcDown(S, IA, top, {}, <<>>)
SvcTested(S, top, IA, n)    == SvcTable(S, top, IA)[n].t
SvcValidated(S, top, IA, n) == SvcTable(S, top, IA)[n].v
SvcValidatedAbove(S, top, IA, n) == UNION {SvcTable(S, top, IA)[j].v : j \in (n + 1)..top}
\* X05-h: the rows of the table (min_order only cuts the orders reported)
SvcRows(S, mn, mx, IA) ==
  LET tb == TLCEval(SvcTable(S, SvcTop(S, mx), IA)) IN
  UNION {{[group |-> g, pvalue |-> SvcPValue(S, g), w |-> SvcW(S, g), fdr |-> g \in tb[n].v] : g \in tb[n].t}
            : n \in SvcOrders(S, mn, mx)}
=============================================================================
