---------------------------- MODULE ChainsV ----------------------------
(***************************************************************************)
(* X04: the vertex-labelled configuration model                            *)
(*      configuration_model(h, n_steps, label="vertex", n_clash, detailed, *)
(*      order/size)  (generation/configuration_model.py, vertex_labeled_mh)*)
(* and the activity-driven temporal generator  HOADmodel / rnd_pwl         *)
(*      (generation/activity_driven.py).                                   *)
(*                                                                         *)
(* Statements (what the docstrings promise; quantifier: n_clash in {0,1}, *)
(* an input with at least one proposable pair of hyperedges):              *)
(*                                                                         *)
(* X04-a  The state of the vertex-labelled chain is a BAG of hyperedges    *)
(*        (initially every hyperedge of the input once; with size/order    *)
(*        only those of that size).  One step proposes two entries with    *)
(*        DIFFERENT node sets f1 # f2 (of equal size when `detailed`),     *)
(*        accepts with probability 2^-|f1 \cap f2| / (mult(f1) mult(f2))   *)
(*        and then replaces one copy of f1, f2 by a pairwise reshuffle     *)
(*        (g1, g2) of them (ReshuffleRel of Chains.tla: the intersection   *)
(*        stays in both, the sizes stay, the rest is split).               *)
(* X04-b  Every step keeps: the degree of every node (with multiplicity),  *)
(*        the degree at every size when `detailed`, the bag of hyperedge   *)
(*        sizes, the number of entries; no entry ever lists a node twice.  *)
(*        A rejected proposal leaves the state unchanged.                  *)
(* X04-c  Duplicates: unlike the stub-labelled chain (positions of a list; *)
(*        coincidences are only merged when the result is built) the       *)
(*        vertex-labelled chain KEEPS multiplicities in its state, never   *)
(*        proposes two copies of one hyperedge, weighs the acceptance by   *)
(*        the multiplicities and may create parallel hyperedges.  The      *)
(*        result is a Hypergraph, which cannot hold parallel hyperedges:   *)
(*        it is the SUPPORT of the final bag (+ the untouched sizes).      *)
(*        Hence, exactly as for C13: no degree ever increases, and degrees *)
(*        / the size multiset are kept when the hyperedge count is kept.   *)
(* X04-d  n_clash: the bag is updated in epochs.  n_clash = 0: one         *)
(*        accepted proposal per epoch ("exact").  n_clash = 1: accepted    *)
(*        proposals, all drawn from the bag as it was when the epoch       *)
(*        started, are collected until one touches a hyperedge (by value)  *)
(*        that the epoch already removed; that proposal is discarded and   *)
(*        the epoch ends.  The collected proposals therefore concern       *)
(*        pairwise different hyperedges and the batched update equals      *)
(*        their sequential application.  n_clash >= 2 lets one hyperedge   *)
(*        be removed more often than it is present ("decreased accuracy"): *)
(*        degrees are then NOT kept (negative control in MC_ChainsV) and   *)
(*        the statements do not cover it.                                  *)
(* X04-e  End to end: the result is the support of a bag reachable from    *)
(*        the input by accepted steps (CMVPost); at least one epoch is     *)
(*        run, and epochs are run until n_steps proposals were accepted.   *)
(*        n_steps <= 1, n_clash = 0: exactly one accepted step.            *)
(* X04-f  (observation checked on the design, Chodrow 2020) the chain is   *)
(*        irreducible: the reachable bags are ALL bags of hyperedges with  *)
(*        the same degrees and the same sizes (small instances).           *)
(*                                                                         *)
(* X04-g  HOADmodel(N, {order: activities}, time) returns a temporal       *)
(*        hypergraph whose hyperedges <<t, e>> have |e| = order + 1 for an *)
(*        order of the dictionary, distinct nodes within 0..N-1 and        *)
(*        0 <= t < time.                                                   *)
(* X04-h  Every hyperedge contains the node whose activation created it:   *)
(*        for every order and time step each node i is tested once         *)
(*        (activities[i] > u, u uniform in [0,1)); an activated node draws *)
(*        `order` distinct nodes of 0..N-1 and the hyperedge is the draw   *)
(*        plus i - unless the draw contains i itself: that activation is   *)
(*        dropped (so "one hyperedge per activation" holds modulo these    *)
(*        self-collisions and modulo coinciding hyperedges at one time).   *)
(*        Corollaries that need no knowledge of the draws: an all-zero     *)
(*        activity vector yields no hyperedge; a hyperedge of size o+1     *)
(*        contains a node with positive activity at order o; at one time   *)
(*        there are at most as many hyperedges of size o+1 as nodes with   *)
(*        positive activity at order o; all-one activities yield exactly   *)
(*        the hyperedges of the N * |orders| * time activations.           *)
(* X04-i  rnd_pwl(xmin, xmax, g, size) returns `size` values within        *)
(*        [xmin, xmax] (0 < xmin <= xmax, g # 1), non-decreasing in the    *)
(*        uniform variate (inverse-CDF sampling).                          *)
(*                                                                         *)
(* Deviation D1 (candidate defect, used ONLY to label rejections):         *)
(* vertex_labeled_mh builds its bag with Counter(hypergraph._edge_list),   *)
(* i.e. it reads the hyperedge IDS as multiplicities (IdsBag).             *)
(***************************************************************************)
EXTENDS Chains

---------------------------------------------------------------------------
(* Bags of hyperedges: functions hyperedge -> integer count with the zero   *)
(* counts left out of the domain.  Counts may become negative only in the   *)
(* n_clash >= 2 model (collections.Counter.update adds signed counts);      *)
(* "present" always means count > 0 (Counter.elements()).                   *)
EmptyBag == <<>>
BCount(M, e) == IF e \in DOMAIN M THEN M[e] ELSE 0
BPlus(A, B)  == LET D == DOMAIN A \cup DOMAIN B
                IN [e \in {x \in D : BCount(A, x) + BCount(B, x) # 0} |-> BCount(A, e) + BCount(B, e)]
BMinus(A, B) == LET D == DOMAIN A \cup DOMAIN B
                IN [e \in {x \in D : BCount(A, x) - BCount(B, x) # 0} |-> BCount(A, e) - BCount(B, e)]
BOf(S)       == [e \in S |-> 1]
BPair(x, y)  == BPlus(BOf({x}), BOf({y}))
BSupport(M)  == {e \in DOMAIN M : M[e] > 0}
RECURSIVE FSum(_, _)
FSum(f, D)   == IF D = {} THEN 0 ELSE LET x == CHOOSE y \in D : TRUE IN f[x] + FSum(f, D \ {x})
BTotal(M)    == FSum(M, BSupport(M))
BDeg(M, n)   == FSum(M, {e \in BSupport(M) : n \in e})
BDegZ(M, n, z) == FSum(M, {e \in BSupport(M) : n \in e /\ Cardinality(e) = z})
BSizes(M)    == [z \in {Cardinality(e) : e \in BSupport(M)} |-> FSum(M, {e \in BSupport(M) : Cardinality(e) = z})]

---------------------------------------------------------------------------
(* X04-a: one step of the vertex-labelled chain *)
VProposable(M, det, f1, f2) ==
  /\ f1 \in BSupport(M) /\ f2 \in BSupport(M) /\ f1 # f2
  /\ det => Cardinality(f1) = Cardinality(f2)
VPairs(M, det) == {p \in BSupport(M) \X BSupport(M) : VProposable(M, det, p[1], p[2])}

RECURSIVE Pow2(_)
Pow2(k) == IF k = 0 THEN 1 ELSE 2 * Pow2(k - 1)
\* acceptance probability <<num, den>>; the uniform variate a lies in [0, 1) and the proposal is rejected
\* when a > p: rejection is possible iff p < 1, acceptance always (p > 0)
AcceptProb(M, f1, f2) == <<1, Pow2(Cardinality(f1 \cap f2)) * M[f1] * M[f2]>>
MayReject(M, f1, f2)  == AcceptProb(M, f1, f2)[2] > AcceptProb(M, f1, f2)[1]

VApply(M, f1, f2, g1, g2) == BPlus(BMinus(M, BPair(f1, f2)), BPair(g1, g2))
VAcceptSucc(M, det) ==
  UNION {{VApply(M, p[1], p[2], o[1], o[2]) : o \in ReshuffleOutcomes(p[1], p[2])} : p \in VPairs(M, det)}
\* the step as a relation: rejected (nothing changes) or accepted
VStep(M, det, M2) ==
  \/ M2 = M /\ \E p \in VPairs(M, det) : MayReject(M, p[1], p[2])
  \/ M2 \in VAcceptSucc(M, det)

\* X04-c: what is returned
VEmit(M, U) == BSupport(M) \cup U

(* X04-d: the outcomes of one epoch started in M0 *)
RECURSIVE EpochFrom(_, _, _, _)
EpochFrom(M0, det, used, V) ==
  {V} \cup UNION {UNION {EpochFrom(M0, det, used \cup {p[1], p[2]}, VApply(V, p[1], p[2], o[1], o[2]))
                           : o \in ReshuffleOutcomes(p[1], p[2])}
                   : p \in {q \in VPairs(M0, det) : q[1] \notin used /\ q[2] \notin used}}
EpochOutcomes(M0, det, nclash) ==
  IF nclash = 0 THEN VAcceptSucc(M0, det)
  ELSE UNION {UNION {EpochFrom(M0, det, {p[1], p[2]}, VApply(M0, p[1], p[2], o[1], o[2]))
                       : o \in ReshuffleOutcomes(p[1], p[2])}
               : p \in VPairs(M0, det)}

(* X04-e: everything the chain can reach *)
RECURSIVE VClosure(_, _, _)
VClosure(seen, frontier, det) ==
  IF frontier = {} THEN seen
  ELSE LET new == (UNION {VAcceptSucc(M, det) : M \in frontier}) \ seen
       IN VClosure(seen \cup new, new, det)
VReach(M0, det) == VClosure({M0}, {M0}, det)

(* Deviation D1: the hyperedge listed k-th (ids 0, 1, 2 ...) is present k-1 times *)
IdsBag(listing) ==
  LET Idx(e) == CHOOSE i \in DOMAIN listing : listing[i] = e
  IN [e \in {x \in Rng(listing) : Idx(x) > 1} |-> Idx(e) - 1]

---------------------------------------------------------------------------
(* The statement on an (input, output) pair of HGX states, Kind = "hg".    *)
(* a = [detailed, size, n_steps, n_clash]; the clauses of C13 apply        *)
(* verbatim (X04-c); the chain-level clauses are evaluated on inputs small *)
(* enough to enumerate (deep), by TLC.                                     *)
HSets(S) == {k.s : k \in Keys(S)}
CMVChain(P, Q, a, ok) ==
  LET H  == HSets(P)
      M0 == BOf(Selected(H, a.size))
      U  == Untouched(H, a.size)
      out == HSets(Q)
      Same == IF a.n_steps = 0 THEN {M0} ELSE {}          \* n_steps = 0 still runs one epoch: both accepted
  IN {<<"output_reachable_by_the_chain", ok => out \in {VEmit(M, U) : M \in VReach(M0, a.detailed)}>>,
      <<"one_accepted_step_when_n_clash_0",
          (ok /\ a.n_steps <= 1 /\ a.n_clash = 0) =>
              out \in {VEmit(M, U) : M \in VAcceptSucc(M0, a.detailed) \cup Same}>>,
      <<"model_one_epoch_of_disjoint_steps_when_n_clash_1",
          (ok /\ a.n_steps <= 1 /\ a.n_clash = 1) =>
              out \in {VEmit(M, U) : M \in EpochOutcomes(M0, a.detailed, 1) \cup Same}>>}

\* is the observation what Deviation D1 produces?  (listing = the input's hyperedges in insertion order)
ExplainedByIds(P, Q, a, ok, listing) ==
  LET sel == SelectSeq(listing, LAMBDA e : a.size = 0 \/ Cardinality(e) = a.size)
      MI  == IdsBag(sel)
      U   == Untouched(HSets(P), a.size)
  IN IF VPairs(MI, a.detailed) = {} THEN ~ok         \* nothing to propose: the code runs out of random numbers
     ELSE /\ ok
          /\ HSets(Q) \in {VEmit(M, U) : M \in (IF a.n_steps <= 1 THEN EpochOutcomes(MI, a.detailed, a.n_clash)
                                                 ELSE VReach(MI, a.detailed))}

---------------------------------------------------------------------------
(* X04-g/h: HOADmodel.  Kind = "temp": the x of a key is its time; the node *)
(* labelled i is the spec node i+1.  acts : Seq([order, a]) in dictionary   *)
(* order, a[i] = numerator of the activity of spec node i over the common   *)
(* denominator D (only comparisons with u = draw.u / D are needed).         *)
Orders(acts)     == {acts[j].order : j \in DOMAIN acts}
ActOf(acts, o)   == (CHOOSE j \in DOMAIN acts : acts[j].order = o)
Positive(acts, o) == {i \in DOMAIN acts[ActOf(acts, o)].a : acts[ActOf(acts, o)].a[i] > 0}
AllZero(acts)    == \A j \in DOMAIN acts : \A i \in DOMAIN acts[j].a : acts[j].a[i] = 0
AllOne(acts, D)  == \A j \in DOMAIN acts : \A i \in DOMAIN acts[j].a : acts[j].a[i] >= D
TimesOfQ(Q)      == {k.x : k \in Keys(Q)}

\* black box: whatever the draws
HOADPost(N, acts, time, Q) ==
  {<<"size_is_order_plus_one", \A k \in Keys(Q) : KSize(k) - 1 \in Orders(acts)>>,
   <<"distinct_nodes_within_0_to_N_minus_1", \A k \in Keys(Q) : KN(k) \subseteq 1..N /\ k.t = {}>>,
   <<"times_within_range_time", \A k \in Keys(Q) : k.x \in 0..(time - 1)>>,
   <<"nodes_of_the_result_within_range", Q.nodes \subseteq 1..N /\ UNION {KN(k) : k \in Keys(Q)} \subseteq Q.nodes>>,
   <<"all_zero_activity_no_hyperedge", AllZero(acts) => Keys(Q) = {}>>,
   <<"hyperedge_contains_a_node_that_can_activate",
       \A k \in Keys(Q) : (KSize(k) - 1 \in Orders(acts)) => KN(k) \cap Positive(acts, KSize(k) - 1) # {}>>,
   <<"at_most_one_hyperedge_per_active_node_order_time",
       \A o \in Orders(acts) : \A t \in TimesOfQ(Q) :
           Cardinality({k \in Keys(Q) : k.x = t /\ KSize(k) = o + 1}) <= Cardinality(Positive(acts, o))>>}

\* with the draws (the harness supplies the random module): draws[k] = [u, has, s] is the k-th activity test
\* in the order of the loops (order, time, node); u = numerator over D; s = the nodes drawn when activated
HOADDriven(N, acts, time, draws, Q) ==
  LET total == Len(acts) * time * N
      Oi(k) == ((k - 1) \div (time * N)) + 1
      T(k)  == ((k - 1) \div N) % time
      I(k)  == ((k - 1) % N) + 1
      Active(k) == acts[Oi(k)].a[I(k)] > draws[k].u
      Made  == {k \in 1..total : Active(k) /\ I(k) \notin Rng(draws[k].s)}
      Link(k) == Key(Rng(draws[k].s) \cup {I(k)}, {}, T(k))
  IN {<<"one_activity_test_per_order_time_node", Len(draws) = total>>} \cup
     (IF Len(draws) # total THEN {} ELSE
      {<<"neighbours_drawn_iff_activity_exceeds_the_variate", \A k \in 1..total : draws[k].has <=> Active(k)>>,
       <<"order_distinct_neighbours_drawn_from_all_N_nodes",
           \A k \in 1..total : draws[k].has =>
               /\ Len(draws[k].s) = acts[Oi(k)].order /\ Cardinality(Rng(draws[k].s)) = Len(draws[k].s)
               /\ Rng(draws[k].s) \subseteq 1..N /\ draws[k].pop = N>>,
       <<"hyperedges_are_exactly_the_activations_without_self_collision", Keys(Q) = {Link(k) : k \in Made}>>})

AsTemp(Ks) == [nodes |-> UNION {KN(k) : k \in Ks},
               E     |-> [k \in Ks |-> [w |-> 1, md |-> NoMeta]],
               nmd   |-> [n \in UNION {KN(k) : k \in Ks} |-> NoMeta], hmd |-> NoMeta, wtd |-> FALSE]
=============================================================================
