---------------------------- MODULE GAM ----------------------------
(***************************************************************************)
(* X08: the group attractiveness model as a state machine                  *)
(*      class GroupAttractivenessModel (hypergraphx/generation/GAM.py).    *)
(*                                                                         *)
(* The class has one docstring (the constructor's parameters) and no test; *)
(* the statements below are the DISCRETE contract that the structure of    *)
(* the code promises.  Agents are 1..N here (0..n-1 in the code).          *)
(*                                                                         *)
(* X08-a  distance_in_a_periodic_box(points, L), points inside [0, L]^2:   *)
(*        a k x k symmetric matrix with zero diagonal whose entry (i, j)   *)
(*        is sqrt(ax^2 + ay^2), a = min(c, L - c), c = |p_i - p_j| per     *)
(*        coordinate (minimum-image distance).  Exact on a rational grid:  *)
(*        the SQUARED entry is the rational Dist2.                         *)
(* X08-b  State partition.  After the constructor and after every          *)
(*        iteration every agent is in exactly one of three states:         *)
(*          inactive  active[i] false, groups[i] = {}                      *)
(*          isolated  active[i] true,  groups[i] = {{i}}                   *)
(*          grouped   active[i] true,  groups[i] a non-empty antichain of  *)
(*                    sets of size >= 2                                    *)
(*        every set of groups[i] contains i and only ACTIVE agents; hence  *)
(*        an inactive agent belongs to no group of anybody.                *)
(* X08-c  Per-agent transitions of one iteration (neighbourhood = the      *)
(*        active agents strictly within the radius d, periodic distance,   *)
(*        positions and activity as they are when the iteration starts):   *)
(*          inactive            -> inactive | isolated       (to_active),  *)
(*                                 never moves, never grouped;             *)
(*          active, no neighbour-> moves; -> inactive | isolated           *)
(*                                 (to_inactive), never grouped;           *)
(*          active, neighbours  -> stays active; moves (move) or stays in  *)
(*                                 place; isolated or grouped.             *)
(*        An agent that does not move keeps its position exactly; a move   *)
(*        changes it by the step length v (at most v under the periodic    *)
(*        distance); positions stay inside the box.                        *)
(* X08-d  Groups are rebuilt in every iteration (reset_groups): every      *)
(*        group of size >= 2 held after iteration t was FORMED in it: it   *)
(*        has a centre c that stayed in place and active, and it equals    *)
(*        {c} \cup (g \cap Nbr(c)) for a group g that a neighbour of c     *)
(*        held when the iteration started (update_neighboring_groups /     *)
(*        filter_interacting_groups).  So all members were active and      *)
(*        strictly within d of the centre when the iteration started.      *)
(*        NOT promised (refuted by TLC, negative controls of MC_GAM): that *)
(*        members are MUTUALLY within d, that groups[.] is symmetric, that *)
(*        the groups of one iteration are disjoint / partition the         *)
(*        interacting agents.                                              *)
(* X08-e  History (update_social_trajectory): iteration t appends one      *)
(*        record (t, g) per DISTINCT group g of size >= 2 held by an       *)
(*        active agent after the iteration (not one per agent), t being    *)
(*        get_max_time() when the iteration started; nothing is ever       *)
(*        removed; the projected history holds exactly the pairs inside    *)
(*        the recorded groups at the same times; `edges` the recorded      *)
(*        groups of size 2.                                                *)
(* X08-f  run(T, max_edges): iterations are executed one after the other,  *)
(*        get_max_time() counts them; the run ends after T iterations, or  *)
(*        - max_edges given - after the first iteration that leaves        *)
(*        |edges| >= max_edges.  Hence every temporal hyperedge has its    *)
(*        time in range(get_max_time()), times never decrease along the    *)
(*        run, sizes are in 2..n, nodes in 0..n-1.                         *)
(* X08-g  get_temporal_hyperedges() / get_temporal_projected_network()     *)
(*        list the two histories once each ((t, sorted tuple));            *)
(*        get_attributes() maps every agent to "0" | "1", int(n * balance) *)
(*        of them "0", and never changes.                                  *)
(*                                                                         *)
(* Model detail (clauses "model_..": MODEL-DRIFT, never a violation):      *)
(* agents are processed in the order 0..n-1 within an iteration, and the   *)
(* random draws are thresholds  move iff 1 - mean(prod a) > u,  activate   *)
(* iff u < r_i, deactivate iff u < 1 - r_i, join iff u < h.  Randomness    *)
(* is the nondeterminism of the action: a choice c = (who moves, who       *)
(* switches on / off, which neighbouring groups each staying agent joins)  *)
(* restricted by MUST / MAY at the extreme values of a, r, h.              *)
(***************************************************************************)
EXTENDS Integers, Sequences, FiniteSets, TLC

SeqRng(s) == {s[i] : i \in DOMAIN s}
AbsV(x) == IF x < 0 THEN -x ELSE x

(* ---------------- X08-a: the periodic distance, exactly ---------------- *)
\* coordinates are integers in units of 1/Q of a length, the box side is P such units
Axis(a, b, P) == LET c == AbsV(a - b) IN IF 2 * c > P THEN P - c ELSE c
Dist2(p, q, P) == Axis(p[1], q[1], P) * Axis(p[1], q[1], P) + Axis(p[2], q[2], P) * Axis(p[2], q[2], P)
\* a rational bound <<num, den>> on a squared length in the same units
Within(p, q, P, r2)   == Dist2(p, q, P) * r2[2] < r2[1]       \* strictly inside the radius
AtMost(p, q, P, r2)   == Dist2(p, q, P) * r2[2] <= r2[1]
OnRadius(p, q, P, r2) == Dist2(p, q, P) * r2[2] = r2[1]
InBox(p, P) == 0 <= p[1] /\ p[1] < P /\ 0 <= p[2] /\ p[2] < P

(* ---------------- the world and the state ------------------------------ *)
(* W = [N, P, r2, v2, attr, h1, h2, al, rl]: number of agents, box side,   *)
(* squared radius and squared step length (rationals), attributes "0"|"1", *)
(* homophily LEVELS "0" | "mid" | "1" of the keys of h_1 / h_2, levels of  *)
(* the attractiveness a_i and of the activation rate r_i.                  *)
(* S = [pos, act, grp, it, traj, proj, edges].                             *)
Agents(W) == 1..W.N
Active(S, W) == {i \in Agents(W) : S.act[i]}
NbrOf(pos, act, W) ==
  [i \in Agents(W) |-> IF act[i] THEN {j \in Agents(W) \ {i} : act[j] /\ Within(pos[i], pos[j], W.P, W.r2)} ELSE {}]

\* update_neighboring_groups: what agent i sees of the groups its neighbours held
NG(grp, nbr, i) == {g \cap nbr[i] : g \in UNION {grp[m] : m \in nbr[i]}} \ {{}}

Maximal(F) == {g \in F : ~\E g2 \in F : g2 # g /\ g \subseteq g2}
Pairs(g) == {{x, y} : x, y \in g} \ {{x} : x \in g}

Sort2(x, y) == IF x = y THEN x \o y ELSE "01"
\* homophily levels that may govern "i joins g" (groups of three or more are cut down to two of their members)
HLevels(W, i, g) ==
  IF Cardinality(g) = 1 THEN {W.h1[W.attr[i] \o W.attr[CHOOSE m \in g : TRUE]]}
  ELSE {W.h2[W.attr[i] \o Sort2(W.attr[p[1]], W.attr[p[2]])] : p \in {q \in g \X g : q[1] # q[2]}}
MustJoin(W, i, g) == HLevels(W, i, g) = {"1"}
MayJoin(W, i, g)  == HLevels(W, i, g) # {"0"}
\* 1 - mean(prod a) is 1 (always moves) / 0 (never moves)
MustMove(W, grp, nbr, i) == nbr[i] = {} \/ \A g \in NG(grp, nbr, i) : \E m \in g : W.al[m] = "0"
NeverMove(W, grp, nbr, i) == nbr[i] # {} /\ NG(grp, nbr, i) # {} /\ \A g \in NG(grp, nbr, i) : \A m \in g : W.al[m] = "1"

(* a choice: mv (agents that move), on / off (agents that switch), sel[i] (groups agent i joins) *)
JoinOptions(S, nbr, W, c, i) ==
  IF S.act[i] /\ i \notin c.mv /\ nbr[i] # {}
  THEN LET ng == NG(S.grp, nbr, i)
           must == {g \in ng : MustJoin(W, i, g)}
           may  == {g \in ng : MayJoin(W, i, g)}
       IN {must \cup X : X \in SUBSET (may \ must)}
  ELSE {{}}
LegalSwitches(S, nbr, W, c) ==
  LET act == {i \in Agents(W) : S.act[i]}
      iso == {i \in act : nbr[i] = {}}
  IN /\ c.mv \subseteq act
     /\ \A i \in act : (MustMove(W, S.grp, nbr, i) => i \in c.mv) /\ (NeverMove(W, S.grp, nbr, i) => i \notin c.mv)
     /\ c.off \subseteq iso /\ c.on \subseteq Agents(W) \ act
     /\ \A i \in iso : (W.rl[i] = "0" => i \in c.off) /\ (W.rl[i] = "1" => i \notin c.off)
     /\ \A i \in Agents(W) \ act : (W.rl[i] = "0" => i \notin c.on) /\ (W.rl[i] = "1" => i \in c.on)
Legal(S, nbr, W, c) == LegalSwitches(S, nbr, W, c) /\ \A i \in Agents(W) : c.sel[i] \in JoinOptions(S, nbr, W, c, i)

(* the loop of iteration(): agents take their turn in the order 1..N.  Mutant (a string) switches a *)
(* deliberate fault on - MC_GAM shows that the invariants reject it.                               *)
RECURSIVE Turns(_, _, _, _, _, _, _)
Turns(i, act, G, S, nbr, c, W) ==
  IF i > W.N THEN [act |-> act, grp |-> G]
  ELSE IF S.act[i]
  THEN LET Ga == IF i \in c.mv \/ c.sel[i] = {}
                 THEN [G EXCEPT ![i] = {{i}}]                                        \* move / to_isolated
                 ELSE [m \in DOMAIN G |->
                         G[m] \cup {g \cup {i} : g \in {x \in c.sel[i] : m \in x \cup {i}}}]  \* update_tentative_..
           off == nbr[i] = {} /\ i \in c.off
           Gb == IF nbr[i] = {} THEN [Ga EXCEPT ![i] = IF off THEN {} ELSE {{i}}] ELSE Ga    \* to_inactive
       IN Turns(i + 1, [act EXCEPT ![i] = ~off], Gb, S, nbr, c, W)
  ELSE IF i \in c.on THEN Turns(i + 1, [act EXCEPT ![i] = TRUE], [G EXCEPT ![i] = {{i}}], S, nbr, c, W)   \* to_active
       ELSE Turns(i + 1, act, G, S, nbr, c, W)

\* reset_groups, the loop, update_social_trajectory.  Positions are the caller's business.
Effect(S, nbr, W, c, Mutant) ==
  LET G0 == [i \in Agents(W) |-> IF S.act[i] /\ Mutant # "no_reset" THEN {} ELSE S.grp[i]]
      T0 == Turns(1, S.act, G0, S, nbr, c, W)
      T  == IF Mutant = "keep_groups_when_inactive"
            THEN [T0 EXCEPT !.grp = [i \in Agents(W) |-> IF T0.act[i] \/ ~S.act[i] THEN T0.grp[i] ELSE {{i}}]]
            ELSE T0
      G  == [i \in Agents(W) |-> IF T.act[i] THEN Maximal(T.grp[i]) ELSE T.grp[i]]
      minsize == IF Mutant = "emit_singletons" THEN 1 ELSE 2
      new == UNION {{g \in G[i] : Cardinality(g) >= minsize} : i \in {j \in Agents(W) : T.act[j]}}
      tm  == IF Mutant = "time_plus_one" THEN S.it + 1 ELSE S.it
  IN [act |-> T.act, grp |-> G, new |-> new,
      traj  |-> S.traj \cup {<<tm, g>> : g \in new},
      proj  |-> S.proj \cup {<<tm, e>> : e \in UNION {Pairs(g) : g \in new}},
      edges |-> S.edges \cup {g \in new : Cardinality(g) = 2}]

\* all choices compatible with given switches: the dependent product of the join options
RECURSIVE SelProduct(_, _, _, _, _)
SelProduct(k, S, nbr, W, c) ==
  IF k = 0 THEN {<<>>}
  ELSE {Append(s, o) : s \in SelProduct(k - 1, S, nbr, W, c), o \in JoinOptions(S, nbr, W, c, k)}
RECURSIVE SelCount(_, _, _, _, _)
SelCount(k, S, nbr, W, c) ==
  IF k = 0 THEN 1 ELSE LET m == SelCount(k - 1, S, nbr, W, c) IN
     IF m > 100000 THEN m ELSE m * Cardinality(JoinOptions(S, nbr, W, c, k))
Choices(S, nbr, W, mv, on, off) ==
  LET c0 == [mv |-> mv, on |-> on, off |-> off, sel |-> [i \in Agents(W) |-> {}]]
  IN {[c0 EXCEPT !.sel = s] : s \in SelProduct(W.N, S, nbr, W, c0)}

(* ---------------- X08-b: the state partition -------------------------- *)
Inactive(S, i) == ~S.act[i] /\ S.grp[i] = {}
IsolatedSt(S, i) == S.act[i] /\ S.grp[i] = {{i}}
Grouped(S, i)  == S.act[i] /\ S.grp[i] # {} /\ \A g \in S.grp[i] : Cardinality(g) >= 2
StatePartition(S, W) == \A i \in Agents(W) : Inactive(S, i) \/ IsolatedSt(S, i) \/ Grouped(S, i)
GroupsWellFormed(S, W) ==
  \A i \in Agents(W) : /\ \A g \in S.grp[i] : i \in g /\ g \subseteq Agents(W) /\ \A m \in g : S.act[m]
                       /\ Maximal(S.grp[i]) = S.grp[i]
(* ---------------- X08-e: the histories -------------------------------- *)
HistoryConsistent(S, W) ==
  /\ \A r \in S.traj : r[1] \in Nat /\ r[2] \subseteq Agents(W) /\ Cardinality(r[2]) >= 2
  /\ S.proj = UNION {{<<r[1], e>> : e \in Pairs(r[2])} : r \in S.traj}
  /\ S.edges = {r[2] : r \in {x \in S.traj : Cardinality(x[2]) = 2}}

(* ---------------- X08-c, d, e: one iteration, as relations ------------- *)
(* between the state S before, the neighbourhood nbr at its start, the set *)
(* `moved` of agents whose position changed and the state Q after          *)
AgentTransitions(S, nbr, W, moved, Q) ==
  \A i \in Agents(W) :
     IF ~S.act[i] THEN i \notin moved /\ (Inactive(Q, i) \/ IsolatedSt(Q, i))
     ELSE IF nbr[i] = {} THEN Inactive(Q, i) \/ IsolatedSt(Q, i)
     ELSE Q.act[i] /\ (IsolatedSt(Q, i) \/ Grouped(Q, i))
HasCentre(S, nbr, W, moved, Q, g) ==
  \E c \in g : /\ S.act[c] /\ Q.act[c] /\ c \notin moved /\ g \ {c} \subseteq nbr[c]
               /\ g \ {c} \in NG(S.grp, nbr, c)
GroupsFormedNow(S, nbr, W, moved, Q) ==
  \A i \in Agents(W) : \A g \in Q.grp[i] : Cardinality(g) >= 2 => HasCentre(S, nbr, W, moved, Q, g)
NewGroups(Q, W) == UNION {{g \in Q.grp[i] : Cardinality(g) >= 2} : i \in {j \in Agents(W) : Q.act[j]}}
AppendOnly(S, Q) == S.traj \subseteq Q.traj /\ S.proj \subseteq Q.proj /\ S.edges \subseteq Q.edges
RecordsAreGroups(S, Q, W) == Q.traj \ S.traj \subseteq {<<S.it, g>> : g \in NewGroups(Q, W)}
GroupsAreRecorded(S, Q, W) == {<<S.it, g>> : g \in NewGroups(Q, W)} \subseteq Q.traj
MustMoveIsolated(S, nbr, W, moved) == \A i \in Agents(W) : (S.act[i] /\ nbr[i] = {}) => i \in moved

\* is the observed state one of the action's outcomes?  (act, grp, histories; the moved set is given)
ObservedChoices(S, nbr, W, moved, Q) ==
  Choices(S, nbr, W, moved, {i \in Agents(W) : ~S.act[i] /\ Q.act[i]}, {i \in Agents(W) : S.act[i] /\ ~Q.act[i]})
IsSuccessor(S, nbr, W, moved, Q) ==
  \E c \in ObservedChoices(S, nbr, W, moved, Q) :
     /\ LegalSwitches(S, nbr, W, c)
     /\ LET E == Effect(S, nbr, W, c, "none")
        IN E.act = Q.act /\ E.grp = Q.grp /\ E.traj = Q.traj /\ E.proj = Q.proj /\ E.edges = Q.edges

(* ---------------- the draws, exactly (model detail) -------------------- *)
(* X = [Q, a, r, h1, h2]: numerators over Q of a_i, r_i and of the entries *)
(* of h_1, h_2; draws: numerators over Q of the successive variates;       *)
(* ngl[i]: the neighbouring groups of agent i in the order the code meets  *)
(* them.  Yields the choice the draws determine, the directions of the     *)
(* moves (the variate of the angle, in quarter turns when Q = 4), how many *)
(* draws were used, and whether some threshold could not be attributed     *)
(* (a group of >= 3 neighbours with mixed attributes).                     *)
RECURSIVE ProdNum(_, _)
ProdNum(a, g) == IF g = {} THEN 1 ELSE LET m == CHOOSE x \in g : TRUE IN a[m] * ProdNum(a, g \ {m})
RECURSIVE Pow(_, _)
Pow(b, e) == IF e = 0 THEN 1 ELSE b * Pow(b, e - 1)
RECURSIVE SumOver(_, _, _, _)
SumOver(X, F, M, acc) == IF F = {} THEN acc ELSE LET g == CHOOSE x \in F : TRUE IN
   SumOver(X, F \ {g}, M, acc + ProdNum(X.a, g) * Pow(X.Q, M - Cardinality(g)))
W_MaxCard(F) == CHOOSE n \in {Cardinality(g) : g \in F} : \A g \in F : Cardinality(g) <= n
\* 1 - mean_g prod_{m in g} a_m > u   with everything over Q
MovesOn(X, ng, u) ==
  IF ng = {} THEN TRUE
  ELSE LET M == W_MaxCard(ng) k == Cardinality(ng)
       IN X.Q * (k * Pow(X.Q, M) - SumOver(X, ng, M, 0)) > u * k * Pow(X.Q, M)
HKeys(W, i, g) ==
  IF Cardinality(g) = 1 THEN {<<1, W.attr[i] \o W.attr[CHOOSE m \in g : TRUE]>>}
  ELSE {<<2, W.attr[i] \o Sort2(W.attr[p[1]], W.attr[p[2]])>> : p \in {q \in g \X g : q[1] # q[2]}}
HNum(X, k) == IF k[1] = 1 THEN X.h1[k[2]] ELSE X.h2[k[2]]

RECURSIVE JoinDraws(_, _, _, _, _, _, _)
\* consumes one draw per listed group: <<selected, ambiguous, next>>
JoinDraws(W, X, i, lst, draws, k, acc) ==
  IF lst = <<>> THEN acc
  ELSE LET g == lst[1]
           nums == {HNum(X, key) : key \in HKeys(W, i, g)}
           yes == {h \in nums : draws[k] < h}
           amb == yes # {} /\ yes # nums
       IN IF k > Len(draws) THEN [acc EXCEPT !.short = TRUE]
          ELSE JoinDraws(W, X, i, Tail(lst), draws, k + 1,
                         [sel |-> IF yes # {} /\ ~amb THEN acc.sel \cup {g} ELSE acc.sel,
                          amb |-> acc.amb \/ amb, k |-> k + 1, short |-> acc.short])

RECURSIVE DrivenTurns(_, _, _, _, _, _, _, _)
DrivenTurns(i, S, nbr, W, X, ngl, draws, D) ==
  IF i > W.N \/ D.short THEN D
  ELSE IF D.k > Len(draws) THEN [D EXCEPT !.short = TRUE]
  ELSE IF ~S.act[i]
  THEN DrivenTurns(i + 1, S, nbr, W, X, ngl, draws,
                   [D EXCEPT !.k = D.k + 1, !.on = IF draws[D.k] < X.r[i] THEN D.on \cup {i} ELSE D.on])
  ELSE LET u == draws[D.k]
           ng == IF nbr[i] = {} THEN {} ELSE NG(S.grp, nbr, i)
       IN IF MovesOn(X, ng, u)
          THEN IF D.k + 1 > Len(draws) THEN [D EXCEPT !.short = TRUE]
               ELSE LET D1 == [D EXCEPT !.k = D.k + 2, !.mv = D.mv \cup {i}, !.dir = [D.dir EXCEPT ![i] = draws[D.k + 1]]]
                    IN IF nbr[i] # {} THEN DrivenTurns(i + 1, S, nbr, W, X, ngl, draws, D1)
                       ELSE IF D1.k > Len(draws) THEN [D1 EXCEPT !.short = TRUE]
                       ELSE DrivenTurns(i + 1, S, nbr, W, X, ngl, draws,
                                        [D1 EXCEPT !.k = D1.k + 1,
                                                   !.off = IF draws[D1.k] < X.Q - X.r[i] THEN D1.off \cup {i} ELSE D1.off])
          ELSE LET J == JoinDraws(W, X, i, ngl[i], draws, D.k + 1, [sel |-> {}, amb |-> FALSE, k |-> D.k + 1, short |-> FALSE])
               IN IF J.short THEN [D EXCEPT !.short = TRUE]
                  ELSE DrivenTurns(i + 1, S, nbr, W, X, ngl, draws,
                                   [D EXCEPT !.k = J.k, !.amb = D.amb \/ J.amb, !.sel = [D.sel EXCEPT ![i] = J.sel]])
Driven(S, nbr, W, X, ngl, draws) ==
  DrivenTurns(1, S, nbr, W, X, ngl, draws,
              [k |-> 1, mv |-> {}, on |-> {}, off |-> {}, sel |-> [i \in Agents(W) |-> {}],
               dir |-> [i \in Agents(W) |-> -1], amb |-> FALSE, short |-> FALSE])
\* where a move of v grid units in the direction of j quarter turns (sin, cos) leads
StepTo(p, j, v, P) ==
  LET dx == IF j = 1 THEN v ELSE IF j = 3 THEN -v ELSE 0
      dy == IF j = 0 THEN v ELSE IF j = 2 THEN -v ELSE 0
  IN <<(p[1] + dx + P) % P, (p[2] + dy + P) % P>>

(* ---------------- X08-f: run ------------------------------------------- *)
\* run(T, max_edges) executed `done` iterations; ecounts[j] = |edges| after the j-th of them
RunStopsWhereItShould(T, hasmax, maxe, done, ecounts) ==
  /\ done = Len(ecounts) /\ done <= (IF T > 0 THEN T ELSE 0)
  /\ \A j \in 1..(done - 1) : ~(hasmax /\ ecounts[j] >= maxe)
  /\ done < T => (hasmax /\ done >= 1 /\ ecounts[done] >= maxe)
=============================================================================
