---------------------------- MODULE TempCorr ----------------------------
(* X06: the temporal correlation measures of                                         *)
(* hypergraphx/measures/temporal/temporal_correlations.py, as exact rationals over   *)
(* the abstract temporal container (HGX.tla, Kind = "temp").                         *)
(*                                                                                   *)
(* Input of every function: a dictionary {order d : {time t : A_d(t)}} over the      *)
(* orders 1..D and the times 0..T-1 (the same T for every order), where A_d(t) is    *)
(* the N x N order-d adjacency matrix of the snapshot at t (TempAdjD of              *)
(* MatricesX.tla: the number of order-d hyperedges alive at t that contain both      *)
(* nodes; 0 on the diagonal and for an order without hyperedge at t), all under ONE  *)
(* numbering of the N nodes; and the dictionary {d : Abar_d} of the time averages    *)
(* Abar_d = (1/T) SUM_t A_d(t) (the "annealed adjacency matrix" of X01-f).           *)
(* X_d(t) = A_d(t) - Abar_d is the centred matrix; a lag tau is in 0..T-1.           *)
(*                                                                                   *)
(* Statements (docstrings; the normalisations the docstrings leave out are the ones  *)
(* of the brief of this extension / the code, and are named as such):                *)
(*                                                                                   *)
(* X06-a  intra_order_correlation_matrix_by_order(A, Abar, d, tau): "the intra-order *)
(*        correlation matrix of order d at time lag tau", the N x N matrix           *)
(*          C_d(tau) = 1/((T - tau) (d!)^2) SUM_{t=0..T-tau-1} X_d(t) X_d(t+tau)^T   *)
(*        in the numbering of the input.                                             *)
(* X06-b  intra_order_correlation_function_by_order: c_d(tau) = trace C_d(tau).      *)
(*        sigma_d = c_d(0) is a mean of squares (>= 0; 0 iff order d never changes). *)
(* X06-c  intra_order_correlation_matrices_all_orders / ..._functions_all_orders     *)
(*        (A, Abar, max_order, tau): "a dictionary {order : ...}" with exactly the   *)
(*        keys 1..max_order (max_order None: the largest order of the input), the    *)
(*        entry of d being X06-a / X06-b for (d, tau).                               *)
(* X06-d  cross_order_correlation_matrix_two_orders(A, Abar, d1, d2, tau): "the      *)
(*        cross-order correlation matrix between orders d1 and d2 at time lag tau",  *)
(*          C_{d1,d2}(tau) = 1/((T - tau) d1! d2!) SUM_t X_d1(t) X_d2(t+tau)^T ;     *)
(*        d1 = d2 gives X06-a.                                                       *)
(* X06-e  cross_order_correlation_function_two_orders(..., normalized):              *)
(*        c_{d1,d2}(tau) = trace C_{d1,d2}(tau); with normalized=True divided by     *)
(*        2 sqrt(sigma_d1 sigma_d2) (undocumented parameter: the code's formula, the *)
(*        same in the three functions that normalise; stated here as                 *)
(*        value * 2 sqrt(sigma_d1 sigma_d2) = c_{d1,d2}(tau), demanded only when     *)
(*        sigma_d1 sigma_d2 > 0).                                                    *)
(* X06-f  cross_order_correlation_matrices_all_orders / ..._functions_all_orders:    *)
(*        "between each couple of orders ... a dictionary {(d1, d2) : ...}" with     *)
(*        exactly the ordered pairs of (1..max_order)^2 as keys, the entry of        *)
(*        (d1, d2) being X06-d / X06-e for (d1, d2, tau) - in that order of d1, d2.  *)
(* X06-g  cross_order_gap_function_two_orders: "the cross-order gap function between *)
(*        orders d1 and d2 at time lag tau",                                         *)
(*          g_{d1,d2}(tau) = (c_{d1,d2}(tau) - c_{d2,d1}(tau)) / (2 sqrt(s_d1 s_d2)) *)
(*        and 0 when d1 = d2.  Hence antisymmetric in (d1, d2) and 0 at lag 0.       *)
(* X06-h  cross_order_gap_functions_all_orders: {(d1, d2) : g_{d1,d2}(tau)} over     *)
(*        exactly the ordered pairs of (1..max_order)^2.                             *)
(* X06-i  annealed_adjacency_matrices_all_orders = None (the default): the average   *)
(*        is computed by the function itself; same values as with Abar passed.       *)
(*                                                                                   *)
(* Everything below is integer valued and indexed by POSITIONS: rows is a sequence     *)
(* enumerating the nodes (the numbering of the input matrices, any one), i and j are  *)
(* positions 1..N in it.  With cen = T * X_d(t) the numerator of C_{d1,d2}(tau)[i, j] *)
(* over the denominator T^2 (T - tau) d1! d2! is                                      *)
(*   SUM_{t < T - tau} SUM_k cen[d1][t][i][k] * cen[d2][t + tau][j][k].               *)
(* Tables are forced once with TLCEval (a lazily evaluated function would recompute   *)
(* its body at every application); functions over integer intervals are indexed       *)
(* directly by TLC.                                                                   *)
EXTENDS MatricesX

TCTimes(TT)  == 0..(TT - 1)
TCLags(TT)   == 0..(TT - 1)
TCOrders(D)  == 1..D
TCPairs(D)   == (1..D) \X (1..D)
\* the keys the all-orders functions are built from: the pairs d1 <= d2 and their mirror images
TCUpper(D)   == {p \in TCPairs(D) : p[1] <= p[2]}
TCMirror(P)  == {<<p[2], p[1]>> : p \in P}
\* rows enumerates the node set X without repetition
TCRowsOf(rows, X) == Len(rows) = Cardinality(X) /\ Rng(rows) = X
\* one such enumeration, for integer nodes: ascending
TCAscending(X) == [i \in 1..Cardinality(X) |-> CHOOSE x \in X : Cardinality({y \in X : y < x}) = i - 1]

RECURSIVE TCSumI(_, _, _)
TCSumI(F(_), a, b) == IF a > b THEN 0 ELSE F(a) + TCSumI(F, a + 1, b)       \* SUM_{i = a..b} F(i)

\* the input: adj[d][t][i][j] = A_d(t)[rows[i], rows[j]] for d in 1..D, t in 0..TT-1 (other times are not part of it)
TCAdj(S, rows, TT, D) ==
  TLCEval([d \in TCOrders(D) |-> TLCEval([t \in TCTimes(TT) |->
     LET K == KeysAtD(S, d, t) IN
     TLCEval([i \in 1..Len(rows) |-> TLCEval([j \in 1..Len(rows) |-> AdjK(K, rows[i], rows[j])])])])])
\* tot[d][i][j] = TT * Abar_d[i, j]
TCTotal(adj, N, TT, D) ==
  TLCEval([d \in TCOrders(D) |-> TLCEval([i \in 1..N |-> TLCEval([j \in 1..N |->
     LET F(t) == adj[d][t][i][j] IN TCSumI(F, 0, TT - 1)])])])
\* cen[d][t][i][j] = TT * X_d(t)[i, j]
TCCentredOf(adj, tot, N, TT, D) ==
  TLCEval([d \in TCOrders(D) |-> TLCEval([t \in TCTimes(TT) |-> TLCEval([i \in 1..N |-> TLCEval([j \in 1..N |->
     TT * adj[d][t][i][j] - tot[d][i][j]])])])])
TCCentred(S, rows, TT, D) ==
  LET adj == TCAdj(S, rows, TT, D) IN TCCentredOf(adj, TCTotal(adj, Len(rows), TT, D), Len(rows), TT, D)

\* numerator and denominator of C_{d1,d2}(tau)[i, j]
TCNum(cen, N, TT, d1, d2, tau, i, j) ==
  LET F(t) == LET a == cen[d1][t][i]
                  b == cen[d2][t + tau][j]
                  G(k) == a[k] * b[k]
              IN TCSumI(G, 1, N)
  IN  TCSumI(F, 0, TT - tau - 1)
TCDen(TT, d1, d2, tau) == TT * TT * (TT - tau) * XFact(d1) * XFact(d2)
\* num[d1][d2][tau][i][j]
TCNumTableOf(cen, N, TT, D) ==
  TLCEval([d1 \in TCOrders(D) |-> TLCEval([d2 \in TCOrders(D) |-> TLCEval([tau \in TCLags(TT) |->
     TLCEval([i \in 1..N |-> TLCEval([j \in 1..N |-> TCNum(cen, N, TT, d1, d2, tau, i, j)])])])])])
TCNumTable(S, rows, TT, D) == TCNumTableOf(TCCentred(S, rows, TT, D), Len(rows), TT, D)
\* fun[d1][d2][tau]: numerator of the trace c_{d1,d2}(tau), same denominator
TCFunTable(num, N, TT, D) ==
  TLCEval([d1 \in TCOrders(D) |-> TLCEval([d2 \in TCOrders(D) |-> TLCEval([tau \in TCLags(TT) |->
     LET F(i) == num[d1][d2][tau][i][i] IN TCSumI(F, 1, N)])])])

(* --- the values, as rationals <<numerator, denominator>> --------------------------- *)
TCCross(num, TT, d1, d2, tau, i, j) == <<num[d1][d2][tau][i][j], TCDen(TT, d1, d2, tau)>>     \* X06-d
TCIntra(num, TT, d, tau, i, j)      == TCCross(num, TT, d, d, tau, i, j)                       \* X06-a
TCCrossFun(fun, TT, d1, d2, tau)    == <<fun[d1][d2][tau], TCDen(TT, d1, d2, tau)>>            \* X06-e
TCIntraFun(fun, TT, d, tau)         == TCCrossFun(fun, TT, d, d, tau)                          \* X06-b
TCSigma(fun, TT, d)                 == TCIntraFun(fun, TT, d, 0)
\* the normalisation 2 sqrt(sigma_d1 sigma_d2) is irrational in general: the normalised quantities are stated
\* through their product with it.  v is the normalised cross function iff v * 2 sqrt(..) = TCCrossFun, and
\* g is the gap function iff g * 2 sqrt(..) = TCGapTimesNorm; both only when TCNormPositive
TCNormPositive(fun, d1, d2)           == fun[d1][d1][0] > 0 /\ fun[d2][d2][0] > 0
TCGapTimesNorm(fun, TT, d1, d2, tau)  == <<fun[d1][d2][tau] - fun[d2][d1][tau], TCDen(TT, d1, d2, tau)>>   \* X06-g
\* the square of the normalisation, 4 sigma_d1 sigma_d2
TCNormSquared(fun, TT, d1, d2)        == RMul(<<4, 1>>, RMul(TCSigma(fun, TT, d1), TCSigma(fun, TT, d2)))
=============================================================================
