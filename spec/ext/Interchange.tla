---------------------------- MODULE Interchange ----------------------------
(***************************************************************************)
(* X02 - interchange writer (HIF), label encoders, simplicial closure.     *)
(*                                                                         *)
(* What the docstrings promise, as numbered statements:                    *)
(*                                                                         *)
(* (a) hypergraphx.readwrite.hif.write_hif  "Save a hypergraph to a HIF    *)
(*     file" (and read_hif "Load a hypergraph from a HIF file")            *)
(*  X02-a1  write_hif(H, path) succeeds for every Hypergraph with JSON     *)
(*          representable labels and metadata, and the file is a HIF       *)
(*          document: "incidences" is an array of records with an "edge"   *)
(*          and a "node" field; "nodes" / "edges" (optional in HIF) are    *)
(*          arrays of records with a "node" / "edge" field.                *)
(*  X02-a2  The document describes H: the incidence sets of its edge names *)
(*          are exactly the hyperedges of H (one edge name per hyperedge,  *)
(*          no (edge, node) pair twice) and its node names (node records   *)
(*          and incidences together) are exactly the nodes of H, isolated  *)
(*          ones included.                       [DocHyperedgesOK/NodesOK] *)
(*  X02-a3  What HIF can carry next to the structure is carried: the       *)
(*          hypergraph-level metadata ("metadata"), the weight of every    *)
(*          hyperedge (edge record "weight"; an absent weight means 1, as  *)
(*          in HIF), and every non-empty node / hyperedge / incidence      *)
(*          metadata dictionary (in "attrs" or next to the reserved        *)
(*          fields of the record: only inclusion is demanded).             *)
(*  X02-a4  read_hif(write_hif(H)) = Carried(H) up to a bijection of node  *)
(*          names: same number of nodes, same hyperedges, same hypergraph  *)
(*          metadata, and the records kept for nodes / hyperedges /        *)
(*          incidences carry what a3 lists.  NOT carried, by the format or *)
(*          by read_hif: the node labels of the object (read_hif numbers   *)
(*          the nodes 0..n-1 itself; the label survives in the "node"      *)
(*          field of the node record), the weightedness of the object and  *)
(*          weights as weights (read_hif always builds an unweighted       *)
(*          Hypergraph; the weight survives inside the edge record), edge  *)
(*          ids and any listing order.                                     *)
(*  X02-a5  write_hif does not modify H.                                   *)
(*                                                                         *)
(* (b) hypergraphx.utils.labeling and <container>.get_mapping()  "Map the  *)
(*     nodes of the hypergraph to integers in [0, n_nodes)"                *)
(*  X02-b1  get_mapping() is a bijection  nodes <-> 0..N-1  (N = current   *)
(*          number of nodes; removed nodes have no code); being a fitted   *)
(*          sklearn LabelEncoder it is the order-preserving one: Encoder.  *)
(*  X02-b2  map_node / map_nodes apply it elementwise; inverse_map_nodes   *)
(*          and get_inverse_mapping are its inverse (the latter as a dict  *)
(*          with domain exactly 0..N-1).                                   *)
(*  X02-b3  relabel_edge(s) maps an edge position by position (so the size *)
(*          is kept and distinct nodes stay distinct); inverse_relabel_    *)
(*          edge(s) after relabel_edge(s), and relabel after inverse       *)
(*          relabel, are the identity; a stored (sorted) edge is sorted    *)
(*          again after relabelling.                                       *)
(*                                                                         *)
(* (c) hypergraphx.representations.simplicial_complex "Returns a           *)
(*     simplicial complex representation of the hypergraph"                *)
(*  X02-c1  The hyperedges of the result are exactly the non-empty subsets *)
(*          of the hyperedges of the source (downward closure), each       *)
(*          listed once.  (The empty hyperedge the code also emits is      *)
(*          tolerated and counted, as in C10.)                             *)
(*  X02-c2  Every node covered by a hyperedge is a node of the result and  *)
(*          the result has no other nodes than the source's.  (Whether an  *)
(*          isolated node of the source is kept is not promised: counted.) *)
(*  X02-c3  The source is unchanged; applying the function to its own      *)
(*          result gives the same hyperedges (idempotent).                 *)
(*  Weights: the docstring promises nothing, nothing is demanded.          *)
(*                                                                         *)
(* HIF documents are those of Persist.tla: [nodes, edges, incidences],     *)
(* three sequences of records [node, tok], [edge, tok], [edge, node, tok]. *)
(* Here a tok is [w, md]: the weight field (-1 = absent) and the           *)
(* attributes of the record.                                               *)
(***************************************************************************)
EXTENDS Persist

NoWeight == -1

RECURSIVE SetToSeq(_)
SetToSeq(A) == IF A = {} THEN <<>>
               ELSE LET x == CHOOSE y \in A : TRUE IN <<x>> \o SetToSeq(A \ {x})

---------------------------------------------------------------------------
(* (a) the HIF writer.  Kind = "hg": a key is [s |-> node set, t |-> {}, x |-> 0] *)
NodeTok(S, n) == [w |-> NoWeight, md |-> S.nmd[n]]
EdgeTok(S, k) == [w |-> S.E[k].w, md |-> S.E[k].md]
IncTok        == [w |-> NoWeight, md |-> NoMeta]
IncPairs(S)   == {p \in Keys(S) \X S.nodes : p[2] \in KN(p[1])}

\* the canonical document of a state (edge names = the keys themselves); any document that
\* differs from it by record order or by an injective renaming of the edges is as good
HifDoc(S) ==
  [nodes      |-> SetToSeq({[node |-> n, tok |-> NodeTok(S, n)] : n \in S.nodes}),
   edges      |-> SetToSeq({[edge |-> k, tok |-> EdgeTok(S, k)] : k \in Keys(S)}),
   incidences |-> SetToSeq({[edge |-> p[1], node |-> p[2], tok |-> IncTok] : p \in IncPairs(S)})]
\* the same without node and edge records (legal HIF: both arrays are optional)
HifDocBare(S) == [HifDoc(S) EXCEPT !.nodes = <<>>, !.edges = <<>>]

\* what survives the format: ReadHif(HifDoc(S)) must be this
Carried(S) ==
  LET es == {KN(k) : k \in Keys(S)}
      KeyOf(s) == CHOOSE k \in Keys(S) : KN(k) = s
  IN [nodes |-> S.nodes,
      edges |-> es,
      nrec  |-> [n \in S.nodes |-> {NodeTok(S, n)}],
      erec  |-> [s \in es |-> {EdgeTok(S, KeyOf(s))}],
      irec  |-> [p \in {<<KN(q[1]), q[2]>> : q \in IncPairs(S)} |-> {IncTok}]]

Covered(S)  == UNION {KN(k) : k \in Keys(S)}
Isolated(S) == S.nodes \ Covered(S)

\* inclusion of a metadata dictionary in the attributes of a record
MdIn(md, tokmd) == \A f \in DOMAIN md : f \in DOMAIN tokmd /\ tokmd[f] = md[f]
\* HIF: a hyperedge without a weight field (or without an edge record) has weight 1
WeightCarried(recs, s, w) ==
  IF s \in DOMAIN recs THEN \E t \in recs[s] : t.w = w \/ (w = 1 /\ t.w = NoWeight) ELSE w = 1
MdCarried(recs, x, md) == md = NoMeta \/ (x \in DOMAIN recs /\ \E t \in recs[x] : MdIn(md, t.md))

\* a2: structure of a written document (any edge naming, any record order)
DocHyperedgesOK(doc, S) ==
  /\ {HifIncSet(doc, e) : e \in HifEdgeNames(doc)} = {KN(k) : k \in Keys(S)}
  /\ Cardinality(HifEdgeNames(doc)) = Cardinality(Keys(S))
DocNodesOK(doc, S) == HifNodeNames(doc) = S.nodes
\* a3: attributes of a written document (R = ReadHif(doc))
ReadWeightsOK(R, S) == \A k \in Keys(S) : WeightCarried(R.erec, KN(k), S.E[k].w)
ReadEdgeMdOK(R, S)  == \A k \in Keys(S) : MdCarried(R.erec, KN(k), S.E[k].md)
ReadNodeMdOK(R, S)  == \A n \in S.nodes : MdCarried(R.nrec, n, S.nmd[n])
\* imd : set of <<node set, node, md>> (incidence metadata is not part of an HGX state: it is logged beside it)
ReadIncMdOK(R, S, imd) == \A t \in imd : MdCarried(R.irec, <<t[1], t[2]>>, t[3])
DocWeightsOK(doc, S)    == ReadWeightsOK(ReadHif(doc), S)
DocEdgeMdOK(doc, S)     == ReadEdgeMdOK(ReadHif(doc), S)
DocNodeMdOK(doc, S)     == ReadNodeMdOK(ReadHif(doc), S)
DocIncMdOK(doc, S, imd) == ReadIncMdOK(ReadHif(doc), S, imd)

\* a4: an object read back.  built = [nodes : Seq(id), edges : Seq([nodes : Seq(id), tok]),
\*     nrec : Seq([id, orig, tok])  (orig = the source node the record names, 0 when it names none),
\*     irec : Seq([e : Seq(id), n : id, tok]), hmd]
\* Node records pin the bijection; nodes without a record may be matched freely.
BackMaps(S, built) ==
  LET ids   == Rng(built.nodes)
      fixed == {<<r.orig, r.id>> : r \in {x \in Rng(built.nrec) : x.orig # 0}}
      RN    == {p[1] : p \in fixed}
      RI    == {p[2] : p \in fixed}
  IN IF ~(/\ Len(built.nodes) = Cardinality(ids)
          /\ Cardinality(fixed) = Cardinality(RN) /\ Cardinality(fixed) = Cardinality(RI)
          /\ RN \subseteq S.nodes /\ RI \subseteq ids)
     THEN {}
     ELSE {[n \in S.nodes |-> IF n \in RN THEN (CHOOSE p \in fixed : p[1] = n)[2] ELSE g[n]]
             : g \in Bijections(S.nodes \ RN, ids \ RI)}
BackStructure(S, built, f) ==
  /\ {Rng(e.nodes) : e \in Rng(built.edges)} = {Image(f, KN(k)) : k \in Keys(S)}
  /\ Len(built.edges) = Cardinality(Keys(S))
  /\ \A e \in Rng(built.edges) : Len(e.nodes) = Cardinality(Rng(e.nodes))
BackAttrs(S, built, f, imd) ==
  LET erec == [s \in {Rng(e.nodes) : e \in Rng(built.edges)} |-> {e.tok : e \in {x \in Rng(built.edges) : Rng(x.nodes) = s}}]
      nrec == [i \in {r.id : r \in Rng(built.nrec)} |-> {r.tok : r \in {x \in Rng(built.nrec) : x.id = i}}]
      irec == [p \in {<<Rng(r.e), r.n>> : r \in Rng(built.irec)} |->
                 {r.tok : r \in {x \in Rng(built.irec) : <<Rng(x.e), x.n>> = p}}]
  IN /\ \A k \in Keys(S) : WeightCarried(erec, Image(f, KN(k)), S.E[k].w)
     /\ \A k \in Keys(S) : MdCarried(erec, Image(f, KN(k)), S.E[k].md)
     /\ \A n \in S.nodes : MdCarried(nrec, f[n], S.nmd[n])
     /\ \A t \in imd : MdCarried(irec, <<Image(f, t[1]), f[t[2]]>>, t[3])

---------------------------------------------------------------------------
(* (b) label encoders.  Lt(m, n): the label of m sorts before the label of n *)
Encoder(ns, Lt(_, _)) == [n \in ns |-> Cardinality({m \in ns : Lt(m, n)})]
IsEncoding(f, ns) == DOMAIN f = ns /\ {f[n] : n \in ns} = 0..(Cardinality(ns) - 1)
InverseOf(f)      == [c \in {f[n] : n \in DOMAIN f} |-> CHOOSE n \in DOMAIN f : f[n] = c]
Relabel(f, sq)    == [i \in DOMAIN sq |-> f[sq[i]]]
Increasing(sq)    == \A i, j \in DOMAIN sq : i < j => sq[i] < sq[j]

---------------------------------------------------------------------------
(* (c) simplicial closure *)
ClosureFaces(S) == UNION {SUBSET KN(k) \ {{}} : k \in Keys(S)}
Closure(S) ==
  [nodes |-> S.nodes,
   E     |-> [k \in {Key(f, {}, 0) : f \in ClosureFaces(S)} |-> [w |-> 1, md |-> NoMeta]],
   nmd   |-> [n \in S.nodes |-> NoMeta],
   hmd   |-> NoMeta,
   wtd   |-> FALSE]
DownwardClosed(F) == \A f \in F : \A g \in SUBSET f \ {{}} : g \in F
=============================================================================
