---------------------------- MODULE Communities ----------------------------
(***************************************************************************)
(* Extension X07: hyperlink communities, core-periphery scores and the      *)
(* community utilities.  Hyperedges are node sets (Kind = "hg"); distances  *)
(* and heights are exact rationals <<num, den>>, den > 0.                   *)
(*                                                                           *)
(* Statements (docstrings + code of /repo, over HGX states):                 *)
(*                                                                           *)
(* X07-a  communities.hyperlink_comm.hyperlink_communities(H) returns the    *)
(*        dendrogram (scipy linkage matrix, rows <<id, id, height, size>>)   *)
(*        of the hyperedges of the sub-hypergraph induced by a largest       *)
(*        connected component of H, leaf i = the i-th hyperedge of           *)
(*        get_edges() of that sub-hypergraph (= of H when H is connected).   *)
(*        Distance of two hyperedges = their Jaccard distance                *)
(*        1 - |a & b| / |a | b| (the code: Jaccard distance for hyperedges   *)
(*        sharing a node, 1.0 for the others - the same number).  The code   *)
(*        passes method="average" to scipy: the distance of two clusters is  *)
(*        the MEAN of the pairwise distances (UPGMA).  It works with its     *)
(*        default arguments (load_distances = save_distances = None), and a  *)
(*        distance matrix saved with save_distances=p is the one read back   *)
(*        with load_distances=p.                                             *)
(* X07-b  The dendrogram is ONE RUN of the merge machine HLSucc: clusters     *)
(*        start as singletons; a step merges a pair of clusters at minimum   *)
(*        average distance (ties: any of them - TLC explores every order);   *)
(*        row r joins two live clusters forming a minimum pair, its height   *)
(*        is their exact average distance, its size the number of leaves,    *)
(*        the new cluster gets id m + r - 1; m - 1 rows, one cluster left.   *)
(* X07-c  _cut_dendrogram(Z, h) labels every hyperedge with exactly one of   *)
(*        the contiguous labels 1..k; two hyperedges share a label iff they  *)
(*        are joined by the rows of height <= h; the partition is ONE OF the *)
(*        partitions the machine can be in when the minimum distance first   *)
(*        exceeds h (HLReachAt) - unique when no step at or below h had two  *)
(*        minimum pairs; get_num_hyperlink_communties = the number k of      *)
(*        blocks; partitions at increasing heights are nested.               *)
(* X07-d  Heights: every height is > 0 (distinct hyperedges), they do not    *)
(*        decrease along a run (so a cut is a prefix of the run), cutting    *)
(*        at h = 0 leaves every hyperedge alone.  A merge of height < 1      *)
(*        joins clusters holding two hyperedges that share a node, so below  *)
(*        1 a community stays inside one connected component of the line     *)
(*        graph, and when the minimum distance reaches 1 the clusters ARE    *)
(*        the components of the line graph.  With method="average" on a      *)
(*        complete matrix (1.0 for non-adjacent pairs) the run does not stop *)
(*        there: components are joined at height exactly 1, every run ends   *)
(*        in ONE cluster, cutting at h >= 1 gives one community.  For the    *)
(*        connected input the code builds, the root height is < 1.           *)
(* X07-e  overlapping_communities(H, Z, h): a dictionary node -> labels; a   *)
(*        node belongs to exactly the communities (labels at cut h) of the   *)
(*        hyperedges holding it (compared as a set; nodes in no hyperedge    *)
(*        are absent).  Demanded for H = the hypergraph Z was computed on    *)
(*        when it is connected, and for the largest-component sub-hypergraph *)
(*        otherwise; for a disconnected H itself: clause                     *)
(*        overlapping_on_disconnected_input (candidate defect X07-D2).       *)
(* X07-f  core_periphery(h, greedy_start, N_ITER): a dictionary with one     *)
(*        score per node; every score is in [0, 1], positive for a node in a *)
(*        hyperedge, and the largest is 1;                                   *)
(*        equal seeds of `random` and `numpy.random` give equal results.     *)
(*        Nothing is demanded about relabelling (randomised algorithm).      *)
(*        "one score per node" for nodes in no hyperedge: clause             *)
(*        cp_scores_every_node (candidate defect X07-D3); without dispute:   *)
(*        exactly the nodes lying in a hyperedge are scored, no other key.   *)
(* X07-g  core_periphery.transition_function(i, N, a, b) (the profile of the *)
(*        cited paper), fb = floor(b*N): i*(1-a)/(2*fb) for i <= fb, else    *)
(*        (i-fb)*(1-a)/(2*(N-fb)) + (1+a)/2; in [0,1], not decreasing in i,  *)
(*        equal to 1 at i = N.                                               *)
(* X07-h  utils.community.normalize_array(u, axis): same shape; every line   *)
(*        along `axis` with a non-zero sum s is u/s (it sums to one), a line *)
(*        whose sum is zero is returned unchanged (zero stays zero); u is    *)
(*        not modified.                                                      *)
(* X07-i  utils.community.calculate_permutation_matrix(u_ref, u_pred), both  *)
(*        N x K: a K x K 0/1 matrix with exactly one 1 per row and column    *)
(*        (at most one from the greedy rounds, completed to a permutation).  *)
(*        With M = u_pred^T u_ref it is ONE OF the outcomes of the greedy    *)
(*        machine PMSucc: K rounds, each takes a largest positive entry of M *)
(*        among unused rows and columns (ties: any); what is left when no    *)
(*        positive entry remains is paired arbitrarily.  What it maximises:  *)
(*        every choice is maximal among what is left; hence, when the        *)
(*        positive entries of M are pairwise distinct, the chosen entries    *)
(*        sorted in descending order are lexicographically largest among ALL *)
(*        K! permutations, and for M >= 0 the total overlap is at least half *)
(*        of the best total.  It is NOT the best total (TLC refutes          *)
(*        PMGreedyIsOptimal).  When u_pred is u_ref with its columns         *)
(*        switched, u_ref a hard membership with no empty community:         *)
(*        u_pred . P = u_ref.                                                *)
(***************************************************************************)
EXTENDS Derive

---------------------------------------------------------------------------
(* Rationals <<num, den>>, den > 0 (cross-multiplication; 32-bit integers)  *)
QEq(p, q) == p[1] * q[2] = q[1] * p[2]
QLe(p, q) == p[1] * q[2] <= q[1] * p[2]
QLt(p, q) == p[1] * q[2] < q[1] * p[2]
QOne  == <<1, 1>>
QZero == <<0, 1>>

---------------------------------------------------------------------------
(* X07-a: distances.  HLScale = lcm(1..7): every Jaccard distance of two    *)
(* hyperedges over at most 7 nodes is an integer number of 1/420.           *)
HLScale == 420
HLEdges(S) == {k.s : k \in Keys(S)}
JacD(a, b) == <<Cardinality(a \cup b) - Cardinality(a \cap b), Cardinality(a \cup b)>>
HLD0(a, b) == (HLScale * (Cardinality(a \cup b) - Cardinality(a \cap b))) \div Cardinality(a \cup b)
HLAdjacent(a, b) == a # b /\ a \cap b # {}

(* linkage rules: the distance of two clusters (sets of hyperedges)         *)
HLPairSum(A, B) == LET F(p) == HLD0(p[1], p[2]) IN SumSet(F, A \X B)
HLMinOf(X) == CHOOSE v \in X : \A w \in X : v <= w
HLMaxOf(X) == CHOOSE v \in X : \A w \in X : w <= v
HLLink(L, A, B) ==
  CASE L = "average"  -> <<HLPairSum(A, B), HLScale * Cardinality(A) * Cardinality(B)>>
    [] L = "single"   -> <<HLMinOf({HLD0(p[1], p[2]) : p \in A \X B}), HLScale>>
    [] L = "complete" -> <<HLMaxOf({HLD0(p[1], p[2]) : p \in A \X B}), HLScale>>

---------------------------------------------------------------------------
(* X07-b: the merge machine.  P = the set of clusters, hs = the heights of  *)
(* the merges so far, ps = the partitions so far, tie = some step had more  *)
(* than one minimum pair.                                                   *)
HLPairs(P) == {pr \in SUBSET P : Cardinality(pr) = 2}
HLPairD(L, pr) == LET A == CHOOSE x \in pr : TRUE
                      B == CHOOSE y \in pr \ {A} : TRUE
                  IN HLLink(L, A, B)
HLTable(L, P) == [pr \in HLPairs(P) |-> HLPairD(L, pr)]
HLMinPairsT(T) == {pr \in DOMAIN T : \A q \in DOMAIN T : QLe(T[pr], T[q])}
HLMinPairs(L, P) == HLMinPairsT(HLTable(L, P))
HLMerge(P, pr) == (P \ pr) \cup {UNION pr}

HLStart(E) == [P |-> {{e} : e \in E}, hs |-> <<>>, ps |-> <<{{e} : e \in E}>>, tie |-> FALSE]
HLDone(m)  == Cardinality(m.P) <= 1
HLSucc(L, m) ==
  LET T  == HLTable(L, m.P)
      mp == HLMinPairsT(T)
  IN {[P |-> HLMerge(m.P, pr), hs |-> Append(m.hs, T[pr]), ps |-> Append(m.ps, HLMerge(m.P, pr)),
       tie |-> m.tie \/ Cardinality(mp) > 1] : pr \in mp}

(* X07-c: is Q a partition the machine can be in when the minimum distance first exceeds h?  Only merges *)
(* inside one block of Q are followed (a run through any other merge cannot end in Q).                   *)
RECURSIVE HLReachAt(_, _, _, _)
HLReachAt(L, P, h, Q) ==
  IF Cardinality(P) <= 1 THEN P = Q
  ELSE LET T  == HLTable(L, P)
           mp == HLMinPairsT(T)
           d  == T[CHOOSE pr \in mp : TRUE]
       IN IF ~QLe(d, h) THEN P = Q
          ELSE \E pr \in mp : /\ \E blk \in Q : (UNION pr) \subseteq blk
                              /\ HLReachAt(L, HLMerge(P, pr), h, Q)
(* the same run, remembering whether a tie was met: is the partition at h unique? *)
RECURSIVE HLNoTieUpTo(_, _, _)
HLNoTieUpTo(L, P, h) ==
  IF Cardinality(P) <= 1 THEN TRUE
  ELSE LET T  == HLTable(L, P)
           mp == HLMinPairsT(T)
           pr == CHOOSE x \in mp : TRUE
       IN IF ~QLe(T[pr], h) THEN TRUE
          ELSE Cardinality(mp) = 1 /\ HLNoTieUpTo(L, HLMerge(P, pr), h)
RECURSIVE HLCutDet(_, _, _)
HLCutDet(L, P, h) ==          \* the partition at h of the run that always takes CHOOSE's pair
  IF Cardinality(P) <= 1 THEN P
  ELSE LET T  == HLTable(L, P)
           pr == CHOOSE x \in HLMinPairsT(T) : TRUE
       IN IF ~QLe(T[pr], h) THEN P ELSE HLCutDet(L, HLMerge(P, pr), h)

(* cuts of one finished run m *)
HLCutOfRun(m, h) == m.ps[1 + Cardinality({i \in DOMAIN m.hs : QLe(m.hs[i], h)})]
\* the height at which two hyperedges are first together in run m (cophenetic distance)
HLFirstJoin(m, a, b) == HLMinOf({i \in DOMAIN m.hs : \E c \in m.ps[i + 1] : a \in c /\ b \in c})
HLRefines(P, Q) == \A c \in P : \E d \in Q : c \subseteq d
HLIsPartition(P, E) == /\ UNION P = E /\ {} \notin P
                       /\ \A c, d \in P : c # d => c \cap d = {}

(* X07-d: connected components of the line graph (hyperedges sharing a node) *)
RECURSIVE HLGrow(_, _)
HLGrow(E, seen) == LET more == {e \in E \ seen : \E s \in seen : e \cap s # {}}
                   IN IF more = {} THEN seen ELSE HLGrow(E, seen \cup more)
HLLineComps(E) == {HLGrow(E, {e}) : e \in E}

---------------------------------------------------------------------------
(* X07-b on a logged dendrogram: leaf = sequence of hyperedges (leaf id i is *)
(* leaf[i+1]), Z = sequence of rows [a, b, h, n]; cl maps live ids to       *)
(* clusters.  which: "ids" | "min" | "height" | "size" (one clause each; a  *)
(* row whose ids are not live ends the replay).                             *)
HLLeafClusters(leaf) == [i \in 0..(Len(leaf) - 1) |-> {leaf[i + 1]}]
RECURSIVE HLRunClause(_, _, _, _, _, _)
HLRunClause(which, L, cl, Z, r, m) ==
  IF r > Len(Z) THEN (which # "ids" \/ Cardinality(DOMAIN cl) = 1)
  ELSE LET z == Z[r] IN
       IF ~(z.a \in DOMAIN cl /\ z.b \in DOMAIN cl /\ z.a # z.b) THEN which # "ids"
       ELSE LET A == cl[z.a]
                B == cl[z.b]
                here == CASE which = "ids"    -> TRUE
                          [] which = "min"    -> {A, B} \in HLMinPairs(L, Rng(cl))
                          [] which = "height" -> QEq(z.h, HLLink(L, A, B))
                          [] which = "size"   -> z.n = Cardinality(A \cup B)
            IN here /\ HLRunClause(which, L, Upd(Without(cl, {z.a, z.b}), m + r - 1, A \cup B), Z, r + 1, m)
\* the clusters after the rows of height <= h (rows taken in order; stops at the first higher row)
RECURSIVE HLCutOfZ(_, _, _, _, _)
HLCutOfZ(cl, Z, r, m, h) ==
  IF r > Len(Z) THEN Rng(cl)
  ELSE LET z == Z[r] IN
       IF ~(z.a \in DOMAIN cl /\ z.b \in DOMAIN cl /\ z.a # z.b) \/ ~QLe(z.h, h) THEN Rng(cl)
       ELSE HLCutOfZ(Upd(Without(cl, {z.a, z.b}), m + r - 1, cl[z.a] \cup cl[z.b]), Z, r + 1, m, h)
\* labels (a sequence parallel to leaf) -> partition
HLBlocks(leaf, lab) == {{leaf[i] : i \in {j \in DOMAIN lab : lab[j] = c}} : c \in Rng(lab)}
HLLabelsOK(leaf, lab) == /\ Len(lab) = Len(leaf)
                         /\ \E k \in 1..Len(leaf) : Rng(lab) = 1..k

---------------------------------------------------------------------------
(* X07-g: the profile, exact.  a = <<an, ad>>, b = <<bn, bd>> in [0, 1).    *)
TFFloor(N, b) == (b[1] * N) \div b[2]
TFValue(i, N, a, b) ==
  LET fb == TFFloor(N, b) IN
  IF i <= fb THEN <<i * (a[2] - a[1]), 2 * fb * a[2]>>
  ELSE \* (i-fb)(1-a)/(2(N-fb)) + (1+a)/2 over the denominator 2*(N-fb)*ad
       <<(i - fb) * (a[2] - a[1]) + (a[2] + a[1]) * (N - fb), 2 * (N - fb) * a[2]>>

---------------------------------------------------------------------------
(* X07-h: normalisation of an integer matrix u (sequence of rows); axis 1 = *)
(* lines are rows, axis 0 = lines are columns.                              *)
MRows(u) == Len(u)
MCols(u) == IF Len(u) = 0 THEN 0 ELSE Len(u[1])
LineSum(u, axis, i, j) ==
  IF axis = 1 THEN LET F(c) == u[i][c] IN SumSet(F, 1..MCols(u))
  ELSE LET G(r) == u[r][j] IN SumSet(G, 1..MRows(u))
\* out[i][j] is a rational with den > 0
NormCellOK(u, axis, out, i, j) ==
  LET s == LineSum(u, axis, i, j) IN
  IF s = 0 THEN QEq(out[i][j], <<u[i][j], 1>>)
  ELSE out[i][j][1] * s = u[i][j] * out[i][j][2]
\* the specification's own result: cell (i, j) of normalize_array(u, axis)
NormOf(u, axis) ==
  [i \in 1..MRows(u) |-> [j \in 1..MCols(u) |->
     LET s == LineSum(u, axis, i, j) IN IF s = 0 THEN <<u[i][j], 1>> ELSE IF s > 0 THEN <<u[i][j], s>> ELSE <<0 - u[i][j], 0 - s>>]]

---------------------------------------------------------------------------
(* X07-i: the overlap matrix and the greedy machine.                        *)
PMOverlap(up, ur, K) ==
  [r \in 1..K |-> [c \in 1..K |-> LET F(n) == up[n][r] * ur[n][c] IN SumSet(F, 1..Len(ur))]]
PMStart == [R |-> {}, C |-> {}, picks |-> {}, vals |-> <<>>]
PMFinal(g, K) == g.R = 1..K
PMFreeMax(M, K, g) == HLMaxOf({M[r][c] : r \in (1..K) \ g.R, c \in (1..K) \ g.C})
PMBijections(A, B) == {f \in [A -> B] : \A x, y \in A : x # y => f[x] # f[y]}
PMSucc(M, K, g) ==
  LET FR == (1..K) \ g.R
      FC == (1..K) \ g.C
  IN IF FR = {} THEN {}
     ELSE IF PMFreeMax(M, K, g) > 0
          THEN {[R |-> g.R \cup {p[1]}, C |-> g.C \cup {p[2]}, picks |-> g.picks \cup {p},
                 vals |-> Append(g.vals, M[p[1]][p[2]])]
                : p \in {q \in FR \X FC : M[q[1]][q[2]] = PMFreeMax(M, K, g)}}
          ELSE \* nothing positive is left: any pairing of the unused rows and columns
               {[R |-> 1..K, C |-> 1..K, picks |-> g.picks \cup {<<r, f[r]>> : r \in FR},
                 vals |-> g.vals] : f \in PMBijections(FR, FC)}
\* is the set PP of <<row, column>> pairs (a permutation) an outcome of the machine?
RECURSIVE PMReach(_, _, _, _, _)
PMReach(M, K, R, C, PP) ==
  LET FR == (1..K) \ R
      FC == (1..K) \ C
  IN IF FR = {} THEN TRUE
     ELSE LET mx == HLMaxOf({M[r][c] : r \in FR, c \in FC}) IN
          IF mx <= 0 THEN TRUE
          ELSE \E p \in FR \X FC : /\ M[p[1]][p[2]] = mx /\ p \in PP
                                   /\ PMReach(M, K, R \cup {p[1]}, C \cup {p[2]}, PP)
PMIsPermutation(PP, K) == /\ PP \subseteq (1..K) \X (1..K)
                          /\ \A r \in 1..K : Cardinality({p \in PP : p[1] = r}) = 1
                          /\ \A c \in 1..K : Cardinality({p \in PP : p[2] = c}) = 1
PMAllPerms(K) == {{<<r, f[r]>> : r \in 1..K} : f \in PMBijections(1..K, 1..K)}
PMTotal(M, PP) == LET F(p) == M[p[1]][p[2]] IN SumSet(F, PP)
PMBest(M, K) == HLMaxOf({PMTotal(M, PP) : PP \in PMAllPerms(K)})
RECURSIVE PMSortDesc(_, _)
PMSortDesc(M, PP) == IF PP = {} THEN <<>>
                     ELSE LET p == CHOOSE x \in PP : \A y \in PP : M[y[1]][y[2]] <= M[x[1]][x[2]]
                          IN <<M[p[1]][p[2]]>> \o PMSortDesc(M, PP \ {p})
LexGe(a, b) == \A i \in DOMAIN a : (\A j \in 1..(i - 1) : a[j] = b[j]) => a[i] >= b[i]
PMDistinctPositive(M, K) ==
  \A p, q \in (1..K) \X (1..K) : (p # q /\ M[p[1]][p[2]] > 0) => M[p[1]][p[2]] # M[q[1]][q[2]]
PMNonNegative(M, K) == \A p \in (1..K) \X (1..K) : M[p[1]][p[2]] >= 0
PMLexMax(M, K, PP) == \A QQ \in PMAllPerms(K) : LexGe(PMSortDesc(M, PP), PMSortDesc(M, QQ))
\* (u_pred . P)[n][c] = u_pred[n][r] for the row r with <<r, c>> in PP
PMApply(up, PP, K) == [n \in 1..Len(up) |-> [c \in 1..K |-> up[n][(CHOOSE p \in PP : p[2] = c)[1]]]]
PMHard(u, K) == /\ \A n \in 1..Len(u) : \E c \in 1..K : u[n] = [d \in 1..K |-> IF d = c THEN 1 ELSE 0]
                /\ \A c \in 1..K : \E n \in 1..Len(u) : u[n][c] = 1
PMSwitched(ur, up, K) == \E f \in PMBijections(1..K, 1..K) :
                           \A n \in 1..Len(ur) : \A c \in 1..K : up[n][f[c]] = ur[n][c]
=============================================================================
