---------------------------- MODULE Blocks ----------------------------
(***************************************************************************)
(* C08 on LARGE STRUCTURED inputs.                                         *)
(*                                                                         *)
(* A hypergraph is given by construction parameters: a sequence ps of      *)
(* blocks  [shape, n, p];  block i occupies the nodes                      *)
(* Off(ps,i)+1 .. Off(ps,i)+n  (Off = number of nodes of the blocks before *)
(* it) and contributes the hyperedges LEdges (below, over local nodes      *)
(* 1..n), shifted by Off.  Every block is connected, blocks are disjoint.  *)
(*                                                                         *)
(*   "single"   n = 1; p = 1: the node has a singleton hyperedge {1}       *)
(*   "path"     pairs {i, i+1}, i in 1..n-1                     (n >= 2)   *)
(*   "star"     pairs {1, i}, i in 2..n                         (n >= 2)   *)
(*   "bigedge"  one hyperedge 1..n                              (n >= 2)   *)
(*   "bigpend"  one hyperedge 1..m, m = n - p >= 2, and p >= 1 pendant     *)
(*              pairs {Host(j), m + j}, Host(j) = ((j-1) % m) + 1          *)
(*   "triples"  triples {2i-1, 2i, 2i+1}, i in 1..(n-1)/2  (n odd, >= 3)   *)
(*                                                                         *)
(* Block formulas (what the answers of utils/cc.py, utils/visits.py and    *)
(* measures/degree.py must be, as functions of the parameters only):       *)
(*                                                                         *)
(*  B1  without a filter the components are the node sets of the blocks:   *)
(*      their number is Len(ps), the component of a node is the node set   *)
(*      of its block, the largest has Max n nodes, connected iff one       *)
(*      block, the isolated nodes are the nodes of the "single" blocks.    *)
(*  B2  under a size filter f a block falls into the parts BParts(b, f):   *)
(*      a uniform block stays whole iff its hyperedge size passes f, else  *)
(*      it is dust (n singletons); a "bigpend" block keeps the large       *)
(*      hyperedge (+ p singletons), or the stars {host} + guests (one part *)
(*      per member of the large hyperedge), or both, or nothing.           *)
(*      Closed forms: BNumParts, BMaxPart, BIsoCount.                      *)
(*  B3  degrees: BDeg(b, v, f); their sum per block BDegTotal(b, f) = the  *)
(*      total size of the block's hyperedges passing f; BSizeCount(b, z)   *)
(*      hyperedges of size z.                                              *)
(*                                                                         *)
(* MC_Blocks checks, exhaustively for small parameters, that these         *)
(* formulas are what the GENERAL definitions (Derive!Components, CompOf,   *)
(* LargestSize, Isolated, HGX!Degree, SizesBag) give on Expand(ps).  That  *)
(* is the justification for deciding inputs of hundreds of nodes (where    *)
(* the general definitions are too slow for TLC) by the formulas alone     *)
(* (Trace_C08B).                                                           *)
(***************************************************************************)
EXTENDS Derive

Shapes == {"single", "path", "star", "bigedge", "bigpend", "triples"}

WFBlock(b) ==
  CASE b.shape = "single"  -> b.n = 1 /\ b.p \in {0, 1}
    [] b.shape = "path"    -> b.n >= 2 /\ b.p = 0
    [] b.shape = "star"    -> b.n >= 2 /\ b.p = 0
    [] b.shape = "bigedge" -> b.n >= 2 /\ b.p = 0
    [] b.shape = "bigpend" -> b.p >= 1 /\ b.n - b.p >= 2
    [] b.shape = "triples" -> b.n >= 3 /\ b.n % 2 = 1 /\ b.p = 0
    [] OTHER -> FALSE
WFParams(ps) == \A i \in DOMAIN ps : WFBlock(ps[i])

---------------------------------------------------------------------------
(* Construction *)
Big(b)      == b.n - b.p                        \* size of the large hyperedge of a "bigpend" block
Host(b, j)  == ((j - 1) % Big(b)) + 1           \* the member the j-th pendant node hangs off
Guests(b, i) == {Big(b) + j : j \in {j \in 1..b.p : Host(b, j) = i}}
NGuests(b, i) == IF i <= b.p THEN ((b.p - i) \div Big(b)) + 1 ELSE 0     \* = |Guests(b, i)| for i in 1..Big(b)

LEdges(b) ==
  CASE b.shape = "single"  -> IF b.p = 1 THEN {{1}} ELSE {}
    [] b.shape = "path"    -> {{i, i + 1} : i \in 1..(b.n - 1)}
    [] b.shape = "star"    -> {{1, i} : i \in 2..b.n}
    [] b.shape = "bigedge" -> {1..b.n}
    [] b.shape = "bigpend" -> {1..Big(b)} \cup {{Host(b, j), Big(b) + j} : j \in 1..b.p}
    [] b.shape = "triples" -> {{2 * i - 1, 2 * i, 2 * i + 1} : i \in 1..((b.n - 1) \div 2)}

Off(ps, i)    == LET F(j) == ps[j].n IN SumSet(F, 1..(i - 1))
Total(ps)     == Off(ps, Len(ps) + 1)
Shift(A, o)   == {x + o : x \in A}
BNodes(ps, i) == (Off(ps, i) + 1)..(Off(ps, i) + ps[i].n)
BlockOf(ps, v) == CHOOSE i \in DOMAIN ps : v \in BNodes(ps, i)

ExpandEdges(ps) == UNION {{Shift(e, Off(ps, i)) : e \in LEdges(ps[i])} : i \in DOMAIN ps}     \* node sets
ExpandKeys(ps)  == {Key(e, {}, 0) : e \in ExpandEdges(ps)}
Expand(ps) == [Empty(FALSE, "Hypergraph") EXCEPT
                 !.nodes = 1..Total(ps),
                 !.nmd   = [n \in 1..Total(ps) |-> NoMeta],
                 !.E     = [k \in ExpandKeys(ps) |-> [w |-> 1, md |-> NoMeta]]]

---------------------------------------------------------------------------
(* B2: the parts of one block under a filter (local nodes) *)
PassZ(z, f) == CASE f[1] = "none" -> TRUE
                 [] f[1] = "eq"   -> z = f[2]
                 [] f[1] = "upto" -> z <= f[2]
Uniform(b) == b.shape \in {"path", "star", "bigedge", "triples"}
USize(b)   == CASE b.shape \in {"path", "star"} -> 2 [] b.shape = "bigedge" -> b.n [] b.shape = "triples" -> 3
Dust(b)    == {{v} : v \in 1..b.n}
Whole(b)   == {1..b.n}

BParts(b, f) ==
  IF b.shape = "single" THEN Whole(b)
  ELSE IF Uniform(b) THEN (IF PassZ(USize(b), f) THEN Whole(b) ELSE Dust(b))
  ELSE LET m == Big(b)  big == PassZ(m, f)  pend == PassZ(2, f) IN
       IF big /\ pend THEN Whole(b)
       ELSE IF big THEN {1..m} \cup {{m + j} : j \in 1..b.p}
       ELSE IF pend THEN {{i} \cup Guests(b, i) : i \in 1..m}
       ELSE Dust(b)

\* closed forms (no set is built)
BNumParts(b, f) ==
  IF b.shape = "single" THEN 1
  ELSE IF Uniform(b) THEN (IF PassZ(USize(b), f) THEN 1 ELSE b.n)
  ELSE LET m == Big(b)  big == PassZ(m, f)  pend == PassZ(2, f) IN
       IF big /\ pend THEN 1 ELSE IF big THEN 1 + b.p ELSE IF pend THEN m ELSE b.n
BMaxPart(b, f) ==
  IF b.shape = "single" THEN 1
  ELSE IF Uniform(b) THEN (IF PassZ(USize(b), f) THEN b.n ELSE 1)
  ELSE LET m == Big(b)  big == PassZ(m, f)  pend == PassZ(2, f) IN
       IF big /\ pend THEN b.n ELSE IF big THEN m ELSE IF pend THEN 1 + NGuests(b, 1) ELSE 1
BIsoCount(b, f) ==
  IF b.shape = "single" THEN 1
  ELSE IF Uniform(b) THEN (IF PassZ(USize(b), f) THEN 0 ELSE b.n)
  ELSE LET m == Big(b)  big == PassZ(m, f)  pend == PassZ(2, f) IN
       IF big /\ pend THEN 0 ELSE IF big THEN b.p ELSE IF pend THEN (IF m > b.p THEN m - b.p ELSE 0) ELSE b.n

(* ... and of the whole hypergraph *)
BComponents(ps, f) == UNION {{Shift(c, Off(ps, i)) : c \in BParts(ps[i], f)} : i \in DOMAIN ps}
BCompOf(ps, v, f)  == LET i == BlockOf(ps, v)  o == Off(ps, i)
                      IN Shift(CHOOSE c \in BParts(ps[i], f) : (v - o) \in c, o)
BNumComponents(ps, f) == LET F(i) == BNumParts(ps[i], f) IN SumSet(F, DOMAIN ps)
BLargest(ps, f)    == LET zs == {BMaxPart(ps[i], f) : i \in DOMAIN ps} IN CHOOSE z \in zs : \A y \in zs : y <= z
BIsolated(ps, f)   == UNION {c \in BComponents(ps, f) : Cardinality(c) = 1}
BNumIsolated(ps, f) == LET F(i) == BIsoCount(ps[i], f) IN SumSet(F, DOMAIN ps)

(* B1: the statements without a filter, in the words of the parameters *)
B1Components(ps) == {BNodes(ps, i) : i \in DOMAIN ps}
B1Largest(ps)    == LET zs == {ps[i].n : i \in DOMAIN ps} IN CHOOSE z \in zs : \A y \in zs : y <= z
B1Connected(ps)  == Len(ps) = 1
B1Isolated(ps)   == UNION {BNodes(ps, i) : i \in {i \in DOMAIN ps : ps[i].shape = "single"}}

---------------------------------------------------------------------------
(* B3: degrees and sizes *)
Ind(c) == IF c THEN 1 ELSE 0
BDeg(b, v, f) ==           \* v a local node
  CASE b.shape = "single"  -> Ind(b.p = 1 /\ PassZ(1, f))
    [] b.shape = "path"    -> Ind(PassZ(2, f)) * (IF v \in {1, b.n} THEN 1 ELSE 2)
    [] b.shape = "star"    -> Ind(PassZ(2, f)) * (IF v = 1 THEN b.n - 1 ELSE 1)
    [] b.shape = "bigedge" -> Ind(PassZ(b.n, f))
    [] b.shape = "bigpend" -> IF v <= Big(b) THEN Ind(PassZ(Big(b), f)) + Ind(PassZ(2, f)) * NGuests(b, v)
                              ELSE Ind(PassZ(2, f))
    [] b.shape = "triples" -> Ind(PassZ(3, f)) * (IF v % 2 = 1 /\ v \notin {1, b.n} THEN 2 ELSE 1)
BDegAt(ps, v, f) == LET i == BlockOf(ps, v) IN BDeg(ps[i], v - Off(ps, i), f)

BSizeCount(b, z) ==        \* number of hyperedges of size z in the block
  CASE b.shape = "single"  -> Ind(b.p = 1 /\ z = 1)
    [] b.shape = "path"    -> Ind(z = 2) * (b.n - 1)
    [] b.shape = "star"    -> Ind(z = 2) * (b.n - 1)
    [] b.shape = "bigedge" -> Ind(z = b.n)
    [] b.shape = "bigpend" -> Ind(z = Big(b)) + Ind(z = 2) * b.p
    [] b.shape = "triples" -> Ind(z = 3) * ((b.n - 1) \div 2)
BSizesOf(b) == CASE b.shape = "single" -> {1} [] b.shape = "bigedge" -> {b.n} [] b.shape = "bigpend" -> {2, Big(b)}
                 [] b.shape = "triples" -> {3} [] OTHER -> {2}
BDegTotal(b, f) == LET F(z) == Ind(PassZ(z, f)) * z * BSizeCount(b, z) IN SumSet(F, BSizesOf(b))
BNumEdges(b)    == LET F(z) == BSizeCount(b, z) IN SumSet(F, BSizesOf(b))

SizeCountAll(ps, z) == LET F(i) == BSizeCount(ps[i], z) IN SumSet(F, DOMAIN ps)
SizesAll(ps)        == {z \in UNION {BSizesOf(ps[i]) : i \in DOMAIN ps} : SizeCountAll(ps, z) > 0}
DegTotalAll(ps, f)  == LET F(i) == BDegTotal(ps[i], f) IN SumSet(F, DOMAIN ps)
NumEdgesAll(ps)     == LET F(i) == BNumEdges(ps[i]) IN SumSet(F, DOMAIN ps)
=============================================================================
