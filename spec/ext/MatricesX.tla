---------------------------- MODULE MatricesX ----------------------------
(* X01: the multi-order, annealed and temporal matrix families of                   *)
(* hypergraphx.linalg that C09 (Matrices.tla) leaves out.  Everything is exact:     *)
(* integers, or rationals <<num, den>> (den > 0, RatOps.tla), indexed by NODES,     *)
(* ORDERS and TIMES, never by row numbers.                                          *)
(*                                                                                  *)
(* Statements (docstring where there is one; otherwise the function's name, its     *)
(* printed messages, the tutorial that uses it and the paper that tutorial cites):  *)
(*                                                                                  *)
(* X01-a  compute_multiorder_laplacian(H, sigmas, order_weighted, degree_weighted), *)
(*        H unweighted with maximum order D >= 1, len(sigmas) = D (no docstring;    *)
(*        tutorials/synchronization.ipynb, Lucas-Cencetti-Battiston 2020): the      *)
(*        N x N matrix, rows numbered as H's own node mapping numbers them, with    *)
(*          entry(n, m) = SUM over the orders d in 1..D that have a hyperedge of    *)
(*                        sigmas[d] * c_d * L_d(n, m) / a_d                         *)
(*        L_d = d * D_d - A_d (LapD of Matrices.tla), c_d = (d-1)! when             *)
(*        order_weighted else 1, a_d = mean over ALL nodes of the order-d degree    *)
(*        when degree_weighted else 1.  (An order without hyperedges has L_d = 0    *)
(*        and contributes nothing; with degree_weighted its term is 0/0 in the      *)
(*        formula, so those inputs are judged under a clause name of their own.)    *)
(*        Hence: symmetric, every row sums to 0.                                    *)
(* X01-b  incidence_matrices_all_orders(H, keep_isolated_nodes): a dictionary       *)
(*        order -> matrix that has (at least) every order d >= 1 with a hyperedge;  *)
(*        the matrix of order d is the incidence matrix of the order-d hyperedges   *)
(*        ("the weight of the hyperedge if the node belongs to it, 0 otherwise"),   *)
(*        over all nodes (keep_isolated_nodes) or over the nodes of those           *)
(*        hyperedges.  No node mapping is returned (the code drops it), so with all *)
(*        nodes the rows are read through H's own mapping and otherwise only what   *)
(*        does not depend on the row numbering is stated.                           *)
(* X01-c  adjacency_factor(H, t) (no docstring): a dictionary over exactly the      *)
(*        nodes; value(n) = SUM over the nodes m # n with A(n, m) # 0 of A(n, m)^t, *)
(*        A = adjacency matrix (Hypergraph) / annealed adjacency matrix (Temporal). *)
(* X01-d  temporal_adjacency_matrices_all_orders(T [, max_order]) and               *)
(*        temporal_adjacency_matrix_by_order(T, d): "the entry (i, j) of the        *)
(*        adjacency matrix of order d at time t counts the number of hyperedges of  *)
(*        order d, existing at time t, where both i and j are contained", under the *)
(*        returned mapping of (d, t); at least every order >= 1 present (up to      *)
(*        max_order) and, per order, every time at which it has a hyperedge.        *)
(* X01-e  annealed_adjacency_matrix(T): "the entry (i, j) counts the average number *)
(*        of hyperedges where both i and j are contained over time", for any two    *)
(*        nodes of T, under the returned mapping (a bijection rows <-> nodes of T). *)
(*        "Over time" = over the snapshots of temporal_adjacency_matrix (the times  *)
(*        that have a hyperedge); the span first..last time is accepted as well.    *)
(* X01-f  annealed_adjacency_matrices_all_orders(T): order -> matrix whose entry    *)
(*        (i, j) is "the average number of hyperedges of order d where both i and j *)
(*        are contained over time"; no mapping is returned: T's own node numbering, *)
(*        or any one numbering of the nodes common to all orders, is accepted.      *)
(* X01-g  are_commuting(Ms) (no docstring; it prints "The Laplacian matrices        *)
(*        commute" / "do not commute"): TRUE exactly when Ms[i] Ms[j] = Ms[j] Ms[i] *)
(*        for all i < j.                                                            *)
(* laplacian_matrices_all_orders is C09's (Trace_C09 LapAllClauses).                *)
EXTENDS Matrices, RatOps

RECURSIVE XFact(_), IPow(_, _)
XFact(n)   == IF n <= 1 THEN 1 ELSE n * XFact(n - 1)
IPow(b, e) == IF e = 0 THEN 1 ELSE b * IPow(b, e - 1)
RInt(i)    == <<i, 1>>

\* orders: d = size - 1; "all orders" are the orders >= 1 that have a hyperedge
MaxOrder(S)      == IF Keys(S) = {} THEN 0 ELSE MaxSize(S) - 1
OrdersPresent(S) == {d \in 1..MaxOrder(S) : OfOrder(S, d) # {}}
OrdersAbsent(S)  == (1..MaxOrder(S)) \ OrdersPresent(S)
IncAllOrders(S)  == [d \in OrdersPresent(S) |-> OfOrder(S, d)]      \* columns of the order-d incidence matrix

(* --- X01-a ---------------------------------------------------------------------- *)
\* mean over all nn nodes of the order-d degree: the (d + 1) |K| memberships of the order-d hyperedges K
MeanDegK(K, d, nn) == <<(d + 1) * Cardinality(K), nn>>
\* one order's term, over its hyperedge set K (non-empty), sg = <<num, den>>
MultiTermK(K, d, nn, sg, ow, dw, n, m) ==
  LET base == RMul(sg, RInt((IF ow THEN XFact(d - 1) ELSE 1) * LapK(K, d, n, m)))
  IN  IF dw THEN RMul(base, <<nn, (d + 1) * Cardinality(K)>>) ELSE base
\* sig : 1..MaxOrder(S) -> rationals
MultiLap(S, sig, ow, dw, n, m) ==
  LET T(d) == MultiTermK(OfOrder(S, d), d, Cardinality(S.nodes), sig[d], ow, dw, n, m)
  IN  RSumSet(T, OrdersPresent(S))

(* --- X01-c (Hypergraph) ------------------------------------------------------------ *)
AdjFactor(S, t, n) ==
  LET F(m) == IF Adj(S, n, m) = 0 THEN 0 ELSE IPow(Adj(S, n, m), t) IN SumSet(F, S.nodes \ {n})

(* --- X01-d -------------------------------------------------------------------------- *)
KeysAtD(S, d, tm)        == {k \in KeysAt(S, tm) : KSize(k) = d + 1}
TempAdjD(S, d, tm, n, m) == AdjK(KeysAtD(S, d, tm), n, m)
TimesOfOrder(S, d)       == {k.x : k \in OfOrder(S, d)}

(* --- X01-e, X01-f: sums over the snapshots; the average is <<sum, number of snapshots>> --- *)
AnnealedNum(S, n, m)     == LET A(tm) == TempAdj(S, tm, n, m) IN SumSet(A, Times(S))
AnnealedNumD(S, d, n, m) == LET A(tm) == TempAdjD(S, d, tm, n, m) IN SumSet(A, Times(S))
NSnapshots(S)            == Cardinality(Times(S))
SetMax(A) == CHOOSE x \in A : \A y \in A : y <= x
SetMin(A) == CHOOSE x \in A : \A y \in A : x <= y
TimeSpan(S)              == SetMax(Times(S)) - SetMin(Times(S)) + 1
Annealed(S, n, m)        == <<AnnealedNum(S, n, m), NSnapshots(S)>>            \* Times(S) # {}
AnnealedD(S, d, n, m)    == <<AnnealedNumD(S, d, n, m), NSnapshots(S)>>
\* X01-c (TemporalHypergraph), with the average taken over tt snapshots
AnnFactor(S, tt, t, n) ==
  LET F(m) == IF AnnealedNum(S, n, m) = 0 THEN RZero
              ELSE RNorm(<<IPow(AnnealedNum(S, n, m), t), IPow(tt, t)>>)
  IN  RSumSet(F, S.nodes \ {n})

(* --- X01-g --------------------------------------------------------------------------- *)
\* over node-indexed matrices (operators) on the node set X
MatProd(A(_, _), B(_, _), X, n, m) == LET F(k) == A(n, k) * B(k, m) IN SumSet(F, X)
Commute(A(_, _), B(_, _), X) == \A n, m \in X : MatProd(A, B, X, n, m) = MatProd(B, A, X, n, m)
\* over logged matrices (sequences of rows of integers, all of the same square shape)
SeqProd(A, B, i, j) == LET F(k) == A[i][k] * B[k][j] IN SumSet(F, 1..Len(B))
SeqCommute(A, B)    == \A i, j \in 1..Len(A) : SeqProd(A, B, i, j) = SeqProd(B, A, i, j)
AllCommute(ms)      == \A a, b \in 1..Len(ms) : a < b => SeqCommute(ms[a], ms[b])
=============================================================================
