---------------------------- MODULE EventDist ----------------------------
(***************************************************************************)
(* Extension X09: topological distances between events                      *)
(* (measures/temporal/temporal_topological_correlation.py).                 *)
(*                                                                           *)
(* Over a temporal container state S (HGX.tla, Kind = "temp"): an EVENT is a *)
(* record (time, hyperedge) = a key k of S (k.x the time, k.s the node set); *)
(* a HYPEREDGE is a node set occurring at some time; its multiplicity is the *)
(* number of its events.  "order" in this module of /repo is the NUMBER OF   *)
(* NODES of the hyperedge (_to_df: "order ... based on the length of nodes").*)
(* The node graph is the clique projection of the time-aggregated            *)
(* hypergraph: two nodes are adjacent iff they share a hyperedge at some     *)
(* time (Neigh(S, n, NoF)); its nodes are the nodes of the hyperedges of at  *)
(* least two nodes (clique_projection(keep_isolated=False)).                 *)
(*                                                                           *)
(* Statements (what the docstrings promise):                                 *)
(*                                                                           *)
(* X09-a  compute_all_nodes_shortest_path(G): G connected -> d[x][y] =       *)
(*        NodeDist(x, y), the hop distance (least d with y in the d-ball of  *)
(*        x, as in Visits.tla), one entry per ordered pair of nodes of G;    *)
(*        G not connected -> rejected (raises).  The empty graph: nothing    *)
(*        is demanded.                                                       *)
(* X09-b  compute_all_edges_shortest_path(H_agg, aggregate=True): "shortest  *)
(*        path lengths between all pairs of edges": one entry per ORDERED    *)
(*        pair of hyperedges (E^2 entries, the code asserts it), value       *)
(*        EdgeDist(e1, e2) = 0 if e1 = e2, else 1 + min {NodeDist(x, y) :    *)
(*        x in e1, y in e2}; symmetric.  Defined iff every node of a         *)
(*        hyperedge is a node of the node graph and that graph is connected  *)
(*        (EDDefined); otherwise the call is rejected (raises), whatever     *)
(*        the exception.  A hypergraph of singletons only: nothing demanded. *)
(* X09-c  compute_all_edges_shortest_path(H) with the default                *)
(*        aggregate=False "aggregate[s] the temporal hypergraph" itself: the *)
(*        same dictionary as X09-b on the hyperedges of all times.           *)
(*        (Candidate defect X09-D2: raises AttributeError on every input.)   *)
(* X09-d  get_mean_distance_events(H, order, edge_distance, cross_order):    *)
(*        a Counter distance -> number of PAIRS OF EVENTS at that distance   *)
(*        (the distance of their hyperedges): cross_order=False: unordered   *)
(*        pairs of distinct events both of `order` nodes (two events of ONE  *)
(*        hyperedge are at distance 0); cross_order=True: pairs of one event *)
(*        of `order` nodes and one event of another number of nodes.         *)
(*        = PairCount below; exact integers; total n(n-1)/2 resp. n * n'.    *)
(*        A distance with count 0 may be present or absent.                  *)
(* X09-e  _to_df(H): one row (timestamp, nodes, order = |nodes|) per event.  *)
(* X09-f  topological_temporal_cond_distance(H, order, distance_dict,        *)
(*        same_order, dt_list = ascending positive delays):                  *)
(*        cond_top_dist_distribution[k] = "the counter of the ... distances  *)
(*        between events with temporal delay smaller than k" = CondCount     *)
(*        (pairs as in X09-d with |t1 - t2| < k); avg_top_dist = the mean of *)
(*        PairCount; avg_cond_top_dist[k] = mean of CondCount(k) divided by  *)
(*        avg_top_dist.  Demanded only where every mean is over at least one *)
(*        pair and avg_top_dist > 0 (0/0 otherwise: undefined).              *)
(* X09-g  design (MC_EventDist, exhaustive): NodeDist is a metric on each    *)
(*        component and agrees with the balls; EdgeDist is symmetric, 0 iff  *)
(*        equal, 1 iff distinct and intersecting, obeys the TRIANGLE         *)
(*        inequality (two nodes of one hyperedge are at most 1 apart, which  *)
(*        the "+ 1" absorbs), lies within [NodeDist(x,y) - 1, NodeDist(x,y)  *)
(*        + 1] for every x in e1, y in e2, and equals the hop distance in    *)
(*        the intersection (line) graph of the hyperedges; the multiplicity  *)
(*        formula of the code (product of multiplicities + k(k-1)/2 at 0)    *)
(*        counts exactly the pairs of events; totals; CondCount is monotone  *)
(*        in the delay and reaches PairCount.                                *)
(***************************************************************************)
EXTENDS Derive

EDInf == 999                                   \* "no path"

---------------------------------------------------------------------------
(* The node graph *)
EDEventSets(S)  == {k.s : k \in Keys(S)}                          \* the hyperedges (all times)
EDEdgeNodes(S)  == UNION EDEventSets(S)                           \* nodes lying in some hyperedge
EDGraphNodes(S) == UNION {e \in EDEventSets(S) : Cardinality(e) >= 2}   \* nodes of the clique projection
EDAdj(S, n)     == Neigh(S, n, NoF)

RECURSIVE EDBall(_, _, _)
EDBall(S, n, d) == IF d = 0 THEN {n}
                   ELSE LET B == EDBall(S, n, d - 1) IN B \cup UNION {EDAdj(S, m) : m \in B}

\* breadth-first layers from n: the function reached node -> hop distance
RECURSIVE EDGrow(_, _, _, _)
EDGrow(S, front, d, acc) ==
  LET nx == (UNION {EDAdj(S, m) : m \in front}) \ DOMAIN acc
  IN IF nx = {} THEN acc
     ELSE EDGrow(S, nx, d + 1, [m \in (DOMAIN acc) \cup nx |-> IF m \in nx THEN d + 1 ELSE acc[m]])
NodeDistFrom(S, n) == EDGrow(S, {n}, 0, [m \in {n} |-> 0])
NodeDistTable(S)   == [a \in EDEdgeNodes(S) |-> NodeDistFrom(S, a)]
TDist(T, a, b)     == IF b \in DOMAIN T[a] THEN T[a][b] ELSE EDInf
NodeDist(S, a, b)  == LET f == NodeDistFrom(S, a) IN IF b \in DOMAIN f THEN f[b] ELSE EDInf

EDGraphConnected(S) == \A a, b \in EDGraphNodes(S) : b \in CompOf(S, a, NoF)
\* the distances between hyperedges are defined (X09-b)
EDDefined(S) == /\ EDGraphNodes(S) # {}
                /\ EDEdgeNodes(S) = EDGraphNodes(S)
                /\ EDGraphConnected(S)

---------------------------------------------------------------------------
(* Distance between two hyperedges (node sets), with the table T of node distances *)
EDMin(A) == CHOOSE m \in A : \A y \in A : m <= y
EdgeDistT(T, e1, e2) ==
  IF e1 = e2 THEN 0
  ELSE LET m == EDMin({TDist(T, x, y) : x \in e1, y \in e2}) IN IF m = EDInf THEN EDInf ELSE 1 + m
EdgeDist(S, e1, e2) == EdgeDistT(NodeDistTable(S), e1, e2)
EdgeDistTable(S) == LET T == NodeDistTable(S) IN [p \in EDEventSets(S) \X EDEventSets(S) |-> EdgeDistT(T, p[1], p[2])]

---------------------------------------------------------------------------
(* Events and pairs of events.  z = number of nodes ("order" of the module) *)
EDMult(S, e)   == Cardinality({k \in Keys(S) : k.s = e})
EDEv(S, z)     == {k \in Keys(S) : KSize(k) = z}
EDEvOther(S, z) == {k \in Keys(S) : KSize(k) # z}
EDAbs(i)       == IF i < 0 THEN 0 - i ELSE i
EDDists(S)     == (0..(Cardinality(S.nodes) + 1)) \cup {EDInf}

\* pairs of events (same order: unordered pairs of distinct events = half of the ordered ones) whose delay is < dt
\* (dt < 0: no condition) at distance d; D is the table of EdgeDistTable
CondCount(S, D, z, cross, dt, d) ==
  LET ok(p) == /\ D[<<p[1].s, p[2].s>>] = d
               /\ (dt < 0 \/ EDAbs(p[1].x - p[2].x) < dt)
  IN IF cross THEN Cardinality({p \in EDEv(S, z) \X EDEvOther(S, z) : ok(p)})
     ELSE Cardinality({p \in EDEv(S, z) \X EDEv(S, z) : p[1] # p[2] /\ ok(p)}) \div 2
PairCount(S, D, z, cross, d) == CondCount(S, D, z, cross, -1, d)
PairCounts(S, z, cross) == LET D == EdgeDistTable(S) IN [d \in EDDists(S) |-> PairCount(S, D, z, cross, d)]

\* the same number the way the code computes it: over hyperedges, weighted by multiplicities
PairCountByMult(S, D, z, cross, d) ==
  LET Ez == {e \in EDEventSets(S) : Cardinality(e) = z}
      Eo == EDEventSets(S) \ Ez
      W(p) == EDMult(S, p[1]) * EDMult(S, p[2])
      H(e) == (EDMult(S, e) * (EDMult(S, e) - 1)) \div 2
  IN IF cross THEN SumSet(W, {p \in Ez \X Eo : D[p] = d})
     ELSE (SumSet(W, {p \in Ez \X Ez : p[1] # p[2] /\ D[p] = d}) \div 2) + (IF d = 0 THEN SumSet(H, Ez) ELSE 0)

\* totals and first moments (means are the rationals <<EDMoment, EDTotal>>)
EDTotal(S, D, z, cross, dt)  == LET C(d) == CondCount(S, D, z, cross, dt, d) IN SumSet(C, EDDists(S))
EDMoment(S, D, z, cross, dt) == LET C(d) == d * CondCount(S, D, z, cross, dt, d) IN SumSet(C, EDDists(S))

\* distance in the intersection graph of the hyperedges (for X09-g)
RECURSIVE EDLineGrow(_, _, _, _)
EDLineGrow(ES, front, d, acc) ==
  LET nx == {e \in ES \ DOMAIN acc : \E g \in front : e \cap g # {}}
  IN IF nx = {} THEN acc
     ELSE EDLineGrow(ES, nx, d + 1, [m \in (DOMAIN acc) \cup nx |-> IF m \in nx THEN d + 1 ELSE acc[m]])
LineDist(S, e1, e2) == LET f == EDLineGrow(EDEventSets(S), {e1}, 0, [m \in {e1} |-> 0])
                       IN IF e2 \in DOMAIN f THEN f[e2] ELSE EDInf
=============================================================================
