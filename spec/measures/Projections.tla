---------------------------- MODULE Projections ----------------------------
(* Graph projections of a hypergraph and its simplicial complex (C10) as        *)
(* operators over HGX states.  Vertices of the projections are the NODES and     *)
(* KEYS (hyperedges) themselves; the implementation's vertex names are bound to  *)
(* them by the returned id tables in the trace module.  Similarities are exact   *)
(* rationals <<numerator, denominator>>, thresholds likewise.                    *)
EXTENDS HGX

QLe(a, b) == a[1] * b[2] <= b[1] * a[2]          \* a <= b for rationals with positive denominators
QEq(a, b) == a[1] * b[2] = b[1] * a[2]

\* bipartite projection: node -- hyperedge iff member
BipEdges(S) == {<<n, k>> \in S.nodes \X Keys(S) : n \in KN(k)}

\* clique projection: two distinct nodes joined iff some hyperedge contains both
CliqueEdges(S) == {{a, b} : <<a, b>> \in {p \in S.nodes \X S.nodes : p[1] # p[2] /\ \E k \in Keys(S) : {p[1], p[2]} \subseteq KN(k)}}

\* similarity of two node sets: intersection size, or Jaccard |A n B| / |A u B| (0 when both are empty)
Sim(dist, A, B) ==
  IF dist = "intersection" THEN <<Cardinality(A \cap B), 1>>
  ELSE IF A \cup B = {} THEN <<0, 1>> ELSE <<Cardinality(A \cap B), Cardinality(A \cup B)>>

\* line graph: two distinct hyperedges joined iff their similarity is at least s
LineSim(dist, k, l)   == Sim(dist, KN(k), KN(l))
LineEdges(S, dist, s) == {{k, l} : <<k, l>> \in {p \in Keys(S) \X Keys(S) : p[1] # p[2] /\ QLe(s, LineSim(dist, p[1], p[2]))}}

\* directed line graph: arc e -> f iff the target set of e and the source set of f overlap by at least s
DirSim(dist, e, f)      == Sim(dist, e.t, f.s)
\* (between DISTINCT hyperedges: with disjoint source and target sets a hyperedge never feeds itself; when a node sits on both
\*  sides the statement is silent about loops, and loops are compared by nobody - Trace_C10 drops them from what was logged)
DirLineArcs(S, dist, s) == {p \in Keys(S) \X Keys(S) : p[1] # p[2] /\ QLe(s, DirSim(dist, p[1], p[2]))}

\* simplicial complex: the downward closure, as a set of node sets
Faces(S) == UNION {SUBSET KN(k) \ {{}} : k \in Keys(S)}
\* the same as a hypergraph state (unweighted, no metadata), to apply the operators again
SimplicialState(S) ==
  [nodes |-> UNION Faces(S),
   E     |-> [k \in {Key(f, {}, 0) : f \in Faces(S)} |-> [w |-> 1, md |-> NoMeta]],
   nmd   |-> [n \in UNION Faces(S) |-> NoMeta],
   hmd   |-> NoMeta,
   wtd   |-> FALSE]
=============================================================================
