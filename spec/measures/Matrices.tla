---------------------------- MODULE Matrices ----------------------------
(* Matrix / tensor representations of a hypergraph (C09) as operators over  *)
(* HGX states.  Everything is integer valued and indexed by NODES and KEYS   *)
(* (hyperedges), never by row or column numbers: the numbering is the        *)
(* business of the implementation's node mapping, which the trace module     *)
(* only requires to be a bijection.                                          *)
EXTENDS HGX

OfOrder(S, d) == {k \in Keys(S) : KSize(k) = d + 1}
NodesOfKeys(K) == UNION {KN(k) : k \in K}

\* incidence: binary, and weighted by the hyperedge's weight
Inc(k, n)     == IF n \in KN(k) THEN 1 ELSE 0
WInc(S, k, n) == IF n \in KN(k) THEN S.E[k].w ELSE 0

\* adjacency over a set of hyperedges: number of them containing both nodes, zero diagonal
AdjK(K, n, m)    == IF n = m THEN 0 ELSE Cardinality({k \in K : n \in KN(k) /\ m \in KN(k)})
Adj(S, n, m)     == AdjK(Keys(S), n, m)
AdjD(S, d, n, m) == AdjK(OfOrder(S, d), n, m)

\* order-d degree and Laplacian  L_d = d * D_d - A_d ; the forms over a hyperedge set K let a validator
\* evaluate OfOrder(S, d) once for a whole matrix
DegK(K, n)       == Cardinality({k \in K : n \in KN(k)})
LapK(K, d, n, m) == IF n = m THEN d * DegK(K, n) ELSE 0 - AdjK(K, n, m)
DegD(S, d, n)    == DegK(OfOrder(S, d), n)
LapD(S, d, n, m) == LapK(OfOrder(S, d), d, n, m)

\* dual (hyperedge x hyperedge) adjacency: 1 exactly when the two hyperedges share a node
Dual(k, l) == IF KN(k) \cap KN(l) # {} THEN 1 ELSE 0

\* adjacency tensor of a uniform hypergraph: the index tuples carrying a 1 are the
\* orderings (injective sequences) of its hyperedges
Injective(p)  == \A i, j \in DOMAIN p : i # j => p[i] # p[j]
TensorRank(S) == IF Keys(S) = {} THEN 0 ELSE KSize(CHOOSE k \in Keys(S) : TRUE)
Tensor(S)     == {p \in [1..TensorRank(S) -> S.nodes] : Injective(p) /\ \E k \in Keys(S) : Rng(p) = KN(k)}

\* temporal: the hyperedges alive at time tm, the snapshot as a plain hypergraph state
KeysAt(S, tm)        == {k \in Keys(S) : k.x = tm}
TempAdj(S, tm, n, m) == AdjK(KeysAt(S, tm), n, m)
Snapshot(S, tm) ==
  LET ks == KeysAt(S, tm) IN
  [nodes |-> NodesOfKeys(ks),
   E     |-> [hk \in {Key(k.s, {}, 0) : k \in ks} |-> S.E[Key(hk.s, {}, tm)]],
   nmd   |-> [n \in NodesOfKeys(ks) |-> S.nmd[n]],
   hmd   |-> NoMeta,
   wtd   |-> S.wtd]
=============================================================================
