---------------------------- MODULE SVH ----------------------------
(***************************************************************************)
(* Statistically validated hypergraph (C19, second half), over HGX states  *)
(* with Kind = "hg" and positive integer weights.                          *)
(*                                                                         *)
(*   "every hyperedge of the input of size between 2 and the bound is      *)
(*    reported once under its size, its p-value is the probability that a  *)
(*    Binomial(N, prod_i K_i/N) variable is at least the hyperedge's       *)
(*    weight (N and K_i being the number of size-n hyperedge occurrences   *)
(*    in total and containing node i), and the validated hyperedges are    *)
(*    exactly those below the multiple-testing threshold computed from     *)
(*    those p-values, so a hyperedge is never validated while another with *)
(*    a smaller p-value is not."                                           *)
(*                                                                         *)
(* An occurrence is one unit of weight: a hyperedge of weight w occurs w   *)
(* times.  Probabilities are exact rationals <<num, den>>.                 *)
(***************************************************************************)
EXTENDS HGX

OfSizeK(S, n) == {k \in Keys(S) : KSize(k) = n}
Wt(S, k) == S.E[k].w
Nocc(S, n) == LET F(k) == Wt(S, k) IN SumSet(F, OfSizeK(S, n))
Kocc(S, i, n) == LET F(k) == Wt(S, k) IN SumSet(F, {k \in OfSizeK(S, n) : i \in k.s})

Tested(S, bound) == {k \in Keys(S) : 2 <= KSize(k) /\ KSize(k) <= bound}
TestedOf(S, bound, n) == {k \in Tested(S, bound) : KSize(k) = n}
TestedSizes(S, bound) == {KSize(k) : k \in Tested(S, bound)}

---------------------------------------------------------------------------
(* integer helpers; TLC integers are 32-bit and TLC stops with an error on  *)
(* overflow, so nothing below can silently wrap                             *)
MaxInt == 2147483647
RECURSIVE Pow(_, _)
Pow(x, e) == IF e = 0 THEN 1 ELSE x * Pow(x, e - 1)
\* x^e if it is at most cap, else 0 (never overflows for cap <= MaxInt, x >= 1; stops at the first excess)
RECURSIVE PowAcc(_, _, _, _)
PowAcc(x, e, cap, acc) == IF e = 0 THEN acc ELSE IF acc > cap \div x THEN 0 ELSE PowAcc(x, e - 1, cap, acc * x)
PowCap(x, e, cap) == PowAcc(x, e, cap, 1)
RECURSIVE Choose(_, _)
Choose(n, k) == IF k < 0 \/ k > n THEN 0 ELSE IF k = 0 THEN 1 ELSE (Choose(n - 1, k - 1) * n) \div k
RECURSIVE ProdSet(_, _)
ProdSet(F(_), D) == IF D = {} THEN 1 ELSE LET d == CHOOSE c \in D : TRUE IN F(d) * ProdSet(F, D \ {d})

---------------------------------------------------------------------------
(* the binomial tail  P[Bin(N, a/b) >= w] = TailNum(N, a, b, w) / b^N        *)
RECURSIVE TailNum(_, _, _, _)
TailNum(N, a, b, w) ==
  IF w > N THEN 0
  ELSE Choose(N, w) * Pow(a, w) * Pow(b - a, N - w) + TailNum(N, a, b, w + 1)

\* success probability of the statement: prod_i (K_i / N) = PA / PB
PA(S, k) == LET F(i) == Kocc(S, i, KSize(k)) IN ProdSet(F, k.s)
PB(S, k) == Pow(Nocc(S, KSize(k)), KSize(k))
PDen(S, n) == Pow(Nocc(S, n), n * Nocc(S, n))          \* common denominator of all p-values of size n
PNum(S, k) == TailNum(Nocc(S, KSize(k)), PA(S, k), PB(S, k), Wt(S, k))
PValue(S, k) == <<PNum(S, k), PDen(S, KSize(k))>>

(* Exact regime: every intermediate of the computations above and of the    *)
(* threshold comparison below is at most m * N^(n*N) <= N^(n*N+1), which     *)
(* must fit in 32 bits:  size 2: N <= 5, size 3: N <= 4, sizes 4..6: N <= 3. *)
ExactRegime(N, n) == N >= 1 /\ PowCap(N, n * N + 1, MaxInt) # 0
ASSUME /\ ExactRegime(5, 2) /\ ~ExactRegime(6, 2) /\ ExactRegime(4, 3) /\ ~ExactRegime(5, 3)
       /\ ExactRegime(3, 4) /\ ~ExactRegime(4, 4) /\ ExactRegime(3, 6) /\ ~ExactRegime(3, 7) /\ ExactRegime(2, 14)

---------------------------------------------------------------------------
(* Multiple testing, per size n: with m tested hyperedges spanning na nodes  *)
(* the level of one test is bonf = 1 / (100 * C(na, n)); the threshold is    *)
(* i* x bonf for the largest i such that the i-th smallest p-value is below  *)
(* i x bonf (0 if there is none); validated = strictly below the threshold.  *)
(* Generic in the p-values: P is a function from a finite set of items to    *)
(* <<num, den>>, M = 1 / bonf.                                               *)
\* P[x] < i / M  without forming num * M :  num * M < i * den  <=>  num <= (i * den - 1) \div M
BelowLevel(p, i, M) == i >= 1 /\ p[1] <= (i * p[2] - 1) \div M
StepUpIndex(P, M) ==
  LET m == Cardinality(DOMAIN P)
      ok == {i \in 1..m : Cardinality({x \in DOMAIN P : BelowLevel(P[x], i, M)}) >= i}
  IN IF ok = {} THEN 0 ELSE CHOOSE i \in ok : \A j \in ok : j <= i
StepUpValidated(P, M) == {x \in DOMAIN P : BelowLevel(P[x], StepUpIndex(P, M), M)}
\* a p-value that is EXACTLY i / M for some i: the float comparison of an implementation is then undetermined
OnALevel(P, M) == \E x \in DOMAIN P, i \in 1..Cardinality(DOMAIN P) :
                      (i * P[x][2]) % M = 0 /\ P[x][1] = (i * P[x][2]) \div M
RatLess(p, q) == p[1] * q[2] < q[1] * p[2]          \* small numbers only (design exploration)
LowerSetOf(P, V) == \A x \in V, y \in (DOMAIN P) \ V : ~RatLess(P[y], P[x])

NodesSpanned(S, bound, n) == UNION {k.s : k \in TestedOf(S, bound, n)}
InvLevel(S, bound, n) == 100 * Choose(Cardinality(NodesSpanned(S, bound, n)), n)
PValues(S, bound, n) == [k \in TestedOf(S, bound, n) |-> PValue(S, k)]
Threshold(S, bound, n) == <<StepUpIndex(PValues(S, bound, n), InvLevel(S, bound, n)), InvLevel(S, bound, n)>>
Validated(S, bound, n) == StepUpValidated(PValues(S, bound, n), InvLevel(S, bound, n))
\* all p-values of one size share the denominator, so "smaller" is "smaller numerator"
LowerSet(S, bound, n) ==
  \A x \in Validated(S, bound, n), y \in TestedOf(S, bound, n) \ Validated(S, bound, n) : PNum(S, y) >= PNum(S, x)
=============================================================================
