---------------------------- MODULE Centrality ----------------------------
(***************************************************************************)
(* Centralities of hypergraphs (C20) as functionals of their projections.  *)
(*                                                                         *)
(* A plain hypergraph is the record H = [nodes, edges] with edges a set of *)
(* node sets (PlainOf an "hg" state, SnapOf a "temp" state at one time).   *)
(* Its projections are defined HERE (not imported): the s-line graph on    *)
(* the hyperedges and the bipartite node/hyperedge graph.  A graph is a    *)
(* function N from vertices to neighbour sets.                             *)
(*                                                                         *)
(*   betweenness  sum over ordered pairs (a, b), a # v # b, of             *)
(*                sigma_ab(v) / sigma_ab, times 1 / ((n-1)(n-2))           *)
(*                (networkx: undirected, normalised; 0 when n <= 2)        *)
(*   closeness    (r-1)/sum of distances * (r-1)/(n-1), r = size of the    *)
(*                vertex's component (Wasserman-Faust, as networkx)        *)
(* Both are exact rationals <<num, den>>.  Averaged = sum over the         *)
(* snapshots (0 where the hyperedge / node is absent) / number of          *)
(* snapshots.  CoMember is the integer matrix shared by the clique         *)
(* expansion (CEC) and the adjacency matrix (sub-hypergraph centrality).   *)
(***************************************************************************)
EXTENDS HGX, RatOps

---------------------------------------------------------------------------
(* shortest paths in a graph N : V -> SUBSET V *)
RECURSIVE GLayers(_, _, _, _)
GLayers(N, seen, frontier, acc) ==
   IF frontier = {} THEN acc
   ELSE LET nxt == (UNION {N[v] : v \in frontier}) \ seen
        IN GLayers(N, seen \cup nxt, nxt, Append(acc, frontier))
\* distances from a to every vertex of its component
GDist(N, a) == LET L == GLayers(N, {a}, {a}, <<>>)
               IN TLCEval([v \in UNION Rng(L) |-> (CHOOSE x \in DOMAIN L : v \in L[x]) - 1])
\* number of shortest paths from a to every vertex of its component (layer by layer)
RECURSIVE GSigmaUpTo(_, _, _, _, _)
GSigmaUpTo(N, L, d, x, sig) ==
   IF x > Len(L) THEN sig
   ELSE LET new == TLCEval([v \in L[x] |->
                      LET G(u) == sig[u] IN SumSet(G, {u \in N[v] : u \in DOMAIN sig /\ d[u] = d[v] - 1})])
        IN GSigmaUpTo(N, L, d, x + 1,
                      TLCEval([v \in (DOMAIN sig) \cup L[x] |-> IF v \in L[x] THEN new[v] ELSE sig[v]]))
GSigma(N, a) == LET L == GLayers(N, {a}, {a}, <<>>)
                IN GSigmaUpTo(N, L, GDist(N, a), 2, [v \in {a} |-> 1])

GBetweenness(V, N) ==
  LET d  == TLCEval([a \in V |-> GDist(N, a)])
      sg == TLCEval([a \in V |-> GSigma(N, a)])
      n  == Cardinality(V)
      \* pair dependency of (a, b) on v; summed over ordered pairs, one source at a time
      Through(v, a, b) == IF b \in DOMAIN d[a] /\ v \in DOMAIN d[a] /\ d[a][v] + d[v][b] = d[a][b]
                          THEN RNorm(<<sg[a][v] * sg[v][b], sg[a][b]>>) ELSE RZero
      From(v, a) == LET F(b) == Through(v, a, b) IN RSumSet(F, V \ {v, a})
      Raw(v) == LET G(a) == From(v, a) IN RSumSet(G, V \ {v})
  IN TLCEval([v \in V |-> IF n > 2 THEN RMul(Raw(v), <<1, (n - 1) * (n - 2)>>) ELSE RZero])

GCloseness(V, N) ==
  LET n == Cardinality(V) IN
  TLCEval([v \in V |-> LET d == GDist(N, v)
                           r == Cardinality(DOMAIN d)
                           D(u) == d[u]
                           tot == SumSet(D, DOMAIN d)
                       IN IF tot = 0 \/ n <= 1 THEN RZero ELSE RNorm(<<(r - 1) * (r - 1), tot * (n - 1)>>)])

---------------------------------------------------------------------------
(* plain hypergraphs and their projections *)
PlainOf(S)  == [nodes |-> S.nodes, edges |-> {KN(k) : k \in Keys(S)}]
\* snapshot of a temporal state: the hyperedges alive at time tm; its node set is that of
\* those hyperedges (allNodes = FALSE) or the whole node set (TRUE)
EdgesAt(S, tm) == {k.s : k \in {c \in Keys(S) : c.x = tm}}
SnapOf(S, tm, allNodes) == [nodes |-> IF allNodes THEN S.nodes ELSE UNION EdgesAt(S, tm), edges |-> EdgesAt(S, tm)]

\* s-line graph: hyperedges sharing at least s nodes
LineN(H, s) == [e \in H.edges |-> {f \in H.edges \ {e} : Cardinality(e \cap f) >= s}]
\* bipartite graph: <<0, {n}>> for node n, <<1, e>> for hyperedge e; n ~ e iff n \in e
NodeV(n) == <<0, {n}>>
EdgeV(e) == <<1, e>>
BipV(H) == {NodeV(n) : n \in H.nodes} \cup {EdgeV(e) : e \in H.edges}
BipN(H) == [v \in BipV(H) |-> IF v[1] = 0 THEN {EdgeV(e) : e \in {f \in H.edges : v[2] \subseteq f}}
                                          ELSE {NodeV(n) : n \in v[2]}]

SBetweenness(H, s) == GBetweenness(H.edges, LineN(H, s))        \* hyperedge -> rational
SCloseness(H, s)   == GCloseness(H.edges, LineN(H, s))
NodeBetweenness(H) == LET b == GBetweenness(BipV(H), BipN(H)) IN TLCEval([n \in H.nodes |-> b[NodeV(n)]])
NodeCloseness(H)   == LET c == GCloseness(BipV(H), BipN(H))   IN TLCEval([n \in H.nodes |-> c[NodeV(n)]])

---------------------------------------------------------------------------
(* temporal averages: sum over the snapshots / number of snapshots *)
SnapTimes(S) == {k.x : k \in Keys(S)}
\* per[tm] is a function (hyperedge or node) -> rational for the snapshot at tm
Averaged(per, times) ==
  LET keys == UNION {DOMAIN per[tm] : tm \in times}
      cnt  == Cardinality(times)
  IN TLCEval([x \in keys |-> LET F(tm) == IF x \in DOMAIN per[tm] THEN per[tm][x] ELSE RZero
                     IN RMul(RSumSet(F, times), <<1, cnt>>)])
AvgSBetweenness(S, s) == LET per == TLCEval([tm \in SnapTimes(S) |-> SBetweenness(SnapOf(S, tm, FALSE), s)])
                         IN Averaged(per, SnapTimes(S))
AvgSCloseness(S, s)   == LET per == TLCEval([tm \in SnapTimes(S) |-> SCloseness(SnapOf(S, tm, FALSE), s)])
                         IN Averaged(per, SnapTimes(S))
AvgNodeBetweenness(S, allNodes) ==
   LET per == TLCEval([tm \in SnapTimes(S) |-> NodeBetweenness(SnapOf(S, tm, allNodes))]) IN Averaged(per, SnapTimes(S))
AvgNodeCloseness(S, allNodes) ==
   LET per == TLCEval([tm \in SnapTimes(S) |-> NodeCloseness(SnapOf(S, tm, allNodes))]) IN Averaged(per, SnapTimes(S))

---------------------------------------------------------------------------
(* integer structures handed to the numerical side *)
CoMember(H, i, j) == IF i = j THEN 0 ELSE Cardinality({e \in H.edges : i \in e /\ j \in e})
CliqueW(H, i, j)  == CoMember(H, i, j)        \* clique-expansion matrix of a uniform hypergraph (CEC)
SubAdj(H, i, j)   == CoMember(H, i, j)        \* adjacency matrix (sub-hypergraph centrality)
UniformOfSize(H, z) == H.edges # {} /\ \A e \in H.edges : Cardinality(e) = z
RECURSIVE HReach(_, _)
HReach(H, seen) == LET more == (UNION {e \in H.edges : e \cap seen # {}}) \ seen
                   IN IF more = {} THEN seen ELSE HReach(H, seen \cup more)
HConnected(H) == H.nodes # {} /\ HReach(H, {CHOOSE n \in H.nodes : TRUE}) = H.nodes
=============================================================================
