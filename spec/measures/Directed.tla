---------------------------- MODULE Directed ----------------------------
(* Measures of directed hypergraphs (C12), over HGX states with Kind = "dir". *)
(* Ratios are exact: <<numerator, denominator>>, <<0, 1>> when there is no    *)
(* hyperedge of that size.                                                    *)
EXTENDS HGX

\* the size-bounded edge set all three reciprocities work on
Bounded(S, mx) == {k \in Keys(S) : 2 <= KSize(k) /\ KSize(k) <= mx}
OfSize(S, mx, z) == {k \in Bounded(S, mx) : KSize(k) = z}

\* signature: cell (a, b) counts the hyperedges with a sources and b targets, a + b <= mx
SigCell(S, mx, a, b) == Cardinality({k \in Keys(S) : KSize(k) <= mx /\ Cardinality(k.s) = a /\ Cardinality(k.t) = b})
\* flat row-major index of cell (a, b) in the (mx-1) x (mx-1) array, 1-based
SigIndex(mx, a, b) == (a - 1) * (mx - 1) + b

Reverse(k) == Key(k.t, k.s, k.x)
IsExact(S, mx, k)  == Reverse(k) \in Bounded(S, mx)
ReachFrom(S, mx, n) == UNION {c.t : c \in {c \in Bounded(S, mx) : n \in c.s}}
IsStrong(S, mx, k) == k.s \subseteq UNION {ReachFrom(S, mx, j) : j \in k.t}
IsWeak(S, mx, k)   == \E i \in k.s, j \in k.t : \E c \in Bounded(S, mx) : j \in c.s /\ i \in c.t

Ratio(S, mx, z, P(_)) ==
  LET tot == OfSize(S, mx, z) IN
  IF tot = {} THEN <<0, 1>> ELSE <<Cardinality({k \in tot : P(k)}), Cardinality(tot)>>
ExactRec(S, mx, z)  == LET P(k) == IsExact(S, mx, k)  IN Ratio(S, mx, z, P)
StrongRec(S, mx, z) == LET P(k) == IsStrong(S, mx, k) IN Ratio(S, mx, z, P)
WeakRec(S, mx, z)   == LET P(k) == IsWeak(S, mx, k)   IN Ratio(S, mx, z, P)
=============================================================================
