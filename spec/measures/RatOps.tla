---------------------------- MODULE RatOps ----------------------------
(* Exact non-negative rationals as <<numerator, denominator>> with          *)
(* denominator > 0, always kept in lowest terms so that TLC's 32-bit        *)
(* integers are not exhausted by intermediate results (TLC reports an       *)
(* overflow as an error, it never wraps silently).  Used by RandWalk (C18)  *)
(* and Centrality (C20).                                                    *)
EXTENDS Integers
RECURSIVE RGcd(_, _)
RGcd(a, b) == IF b = 0 THEN a ELSE RGcd(b, a % b)
RNorm(q)   == IF q[1] = 0 THEN <<0, 1>> ELSE LET g == RGcd(q[1], q[2]) IN <<q[1] \div g, q[2] \div g>>
RAdd(p, q) == LET g == RGcd(p[2], q[2]) IN RNorm(<<p[1] * (q[2] \div g) + q[1] * (p[2] \div g), (p[2] \div g) * q[2]>>)
RMul(p, q) == LET a == RNorm(<<p[1], q[2]>>) b == RNorm(<<q[1], p[2]>>) IN <<a[1] * b[1], a[2] * b[2]>>
RSame(p, q) == p[1] * q[2] = q[1] * p[2]
RLeq(p, q)  == p[1] * q[2] <= q[1] * p[2]
ROne  == <<1, 1>>
RZero == <<0, 1>>
RECURSIVE RSumSet(_, _)
RSumSet(F(_), D) == IF D = {} THEN RZero ELSE LET d == CHOOSE c \in D : TRUE IN RAdd(F(d), RSumSet(F, D \ {d}))
=============================================================================
