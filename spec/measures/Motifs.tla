---------------------------- MODULE Motifs ----------------------------
(* Motif census (C11), over HGX states.                                         *)
(*                                                                              *)
(* Undirected (Kind = "hg"): a PATTERN on k nodes is a set of hyperedges (node  *)
(* sets of size >= 2) over 1..k.  Pattern(H, S) is what the hypergraph H shows  *)
(* on the node set S: the hyperedges of size >= 2 contained in S, nodes renamed *)
(* by their rank in S.  S is counted when its pattern connects all of S, for    *)
(* the isomorphism class (= orbit under Sym(k)) of that pattern.  Census(H,U,k) *)
(* maps every class to the number of k-subsets of U showing it.                 *)
(*                                                                              *)
(* Directed (Kind = "dir"): patterns are sets of <<sources, targets>>; the      *)
(* canonical representative of a class is the minimum, over the node            *)
(* permutations, of the "sorted tuple" encoding under the order the             *)
(* implementation's language gives to nested tuples: IsCanonical(P, k).         *)
EXTENDS HGX

Min(A) == CHOOSE a \in A : \A b \in A : a <= b
Rank(S, n) == Cardinality({m \in S : m <= n})
RankSet(S, e) == {Rank(S, n) : n \in e}
KSubsets(U, k) == {S \in SUBSET U : Cardinality(S) = k}

Bijections(A) == {f \in [A -> A] : \A a, b \in A : a # b => f[a] # f[b]}
Perm3 == Bijections(1..3)
Perm4 == Bijections(1..4)
Perms(k) == IF k = 3 THEN Perm3 ELSE IF k = 4 THEN Perm4 ELSE Bijections(1..k)

---------------------------------------------------------------------------
(* Undirected patterns *)
HEdges(S) == {k.s : k \in Keys(S)}                    \* the hyperedges of an "hg" state, as node sets
Pattern(H, S) == {RankSet(S, e) : e \in {e \in H : Cardinality(e) >= 2 /\ e \subseteq S}}
Relabel(f, P) == {{f[n] : n \in e} : e \in P}

RECURSIVE Grow(_, _)
Grow(P, C) == LET D == C \cup UNION {e \in P : e \cap C # {}} IN IF D = C THEN C ELSE Grow(P, D)
Connected(P, k) == Grow(P, {1}) = 1..k                \* the hyperedges of P join all k nodes

Orbit(P, k) == {Relabel(f, P) : f \in Perms(k)}
EdgeUniverse(k) == {e \in SUBSET (1..k) : Cardinality(e) >= 2}
ConnPatterns(k) == {P \in SUBSET EdgeUniverse(k) : Connected(P, k)}
Classes(k) == {Orbit(P, k) : P \in ConnPatterns(k)}

\* constant-level (TLC evaluates them once per run): the classes, and the classes by number of hyperedges
Classes3 == Classes(3)
Classes4 == Classes(4)
ClassSet(k) == IF k = 3 THEN Classes3 ELSE IF k = 4 THEN Classes4 ELSE Classes(k)
BySize(k) == [m \in 0..Cardinality(EdgeUniverse(k)) |-> {c \in ClassSet(k) : \E P \in c : Cardinality(P) = m}]
BySize3 == BySize(3)
BySize4 == BySize(4)
\* the class of P when P is a connected pattern over 1..k, {} when P is anything else
\* (looked up among the classes with as many hyperedges; MC_Motifs: it is Orbit(P, k) / {})
ClassOf(P, k) == IF ~(P \subseteq EdgeUniverse(k)) THEN {}
                 ELSE LET hits == {c \in (IF k = 3 THEN BySize3 ELSE IF k = 4 THEN BySize4 ELSE BySize(k))[Cardinality(P)] : P \in c}
                      IN IF hits = {} THEN {} ELSE CHOOSE c \in hits : TRUE

\* THE census: class |-> number of k-subsets of U showing a pattern of that class
\* (every pattern in a class of Classes(k) is connected, so other subsets count nowhere)
ConnSets(H, U, k) == {S \in KSubsets(U, k) : Connected(Pattern(H, S), k)}
Shown(H, U, k) == [S \in ConnSets(H, U, k) |-> Pattern(H, S)]
CountIn(sh, cls) == Cardinality({S \in DOMAIN sh : sh[S] \in cls})
Census(H, U, k) == LET sh == Shown(H, U, k) IN [c \in ClassSet(k) |-> CountIn(sh, c)]
\* the same function restricted to the classes that occur (all the others are 0)
CensusNZ(H, U, k) == LET cl == [S \in KSubsets(U, k) |-> ClassOf(Pattern(H, S), k)]
                         cs == {S \in DOMAIN cl : cl[S] # {}}
                     IN [c \in {cl[S] : S \in cs} |-> Cardinality({S \in cs : cl[S] = c})]

(* the three passes of the enumeration (anchors): a k-subset is reached by the *)
(* "full" pass when it is a hyperedge, by the "not full" pass (k = 4) when it  *)
(* is a (k-1)-hyperedge plus a smaller hyperedge meeting it, and by the walk   *)
(* on the 2-node hyperedges otherwise.                                         *)
FullSets(H, U, k) == {S \in KSubsets(U, k) : S \in H}
NotFullSets(H, U, k) == {S \in KSubsets(U, k) : S \notin H /\ \E e, g \in H :
                             Cardinality(e) = k - 1 /\ Cardinality(g) < k /\ e \cap g # {} /\ e \cup g = S}
Dyadic(H) == {e \in H : Cardinality(e) = 2}
DyadicSets(H, U, k) == {S \in KSubsets(U, k) : Connected(Pattern(Dyadic(H), S), k)}

---------------------------------------------------------------------------
(* Directed patterns *)
DEdges(S) == {<<k.s, k.t>> : k \in Keys(S)}           \* the hyperedges of a "dir" state
DNodes(e) == e[1] \cup e[2]
DPattern(D, S) == {<<RankSet(S, e[1]), RankSet(S, e[2])>> : e \in {e \in D : DNodes(e) \subseteq S}}
DRelabel(f, P) == {<<{f[n] : n \in e[1]}, {f[n] : n \in e[2]}>> : e \in P}
DOrbit(P, k) == {DRelabel(f, P) : f \in Perms(k)}

\* every directed hyperedge over 1..k
DEdgeU(k) == {p \in (SUBSET (1..k) \ {{}}) \X (SUBSET (1..k) \ {{}}) : p[1] \cap p[2] = {}}

(* The "sorted tuple" encoding of a pattern and its order.  A hyperedge is the pair   *)
(* <<sorted sources, sorted targets>>, a pattern the sorted tuple of its hyperedges;  *)
(* tuples compare position by position and a proper prefix is smaller.                *)
RECURSIVE SortedTuple(_)
SortedTuple(A) == IF A = {} THEN <<>> ELSE LET m == Min(A) IN <<m>> \o SortedTuple(A \ {m})
TupLess(a, b) == \E i \in 1..Len(b) : /\ i - 1 <= Len(a)
                                      /\ \A j \in 1..(i - 1) : a[j] = b[j]
                                      /\ (Len(a) = i - 1 \/ a[i] < b[i])
EdgeEnc(e) == <<SortedTuple(e[1]), SortedTuple(e[2])>>
EncLess(a, b) == TupLess(a[1], b[1]) \/ (a[1] = b[1] /\ TupLess(a[2], b[2]))
EdgeLess(e, g) == EncLess(EdgeEnc(e), EdgeEnc(g))
RECURSIVE SortEnc(_)
SortEnc(E) == IF E = {} THEN <<>>
              ELSE LET x == CHOOSE a \in E : TRUE
                       s == SortEnc(E \ {x})
                       n == Cardinality({i \in DOMAIN s : EncLess(s[i], x)})
                   IN SubSeq(s, 1, n) \o <<x>> \o SubSeq(s, n + 1, Len(s))
PatEnc(P) == SortEnc({EdgeEnc(e) : e \in P})
SeqLess(p, q) == \E i \in 1..Len(q) : /\ i - 1 <= Len(p)
                                      /\ \A j \in 1..(i - 1) : p[j] = q[j]
                                      /\ (Len(p) = i - 1 \/ EncLess(p[i], q[i]))
PatLess(P, Q) == SeqLess(PatEnc(P), PatEnc(Q))
\* THE definition: no relabelling of P has a smaller encoding
IsCanonicalDef(P, k) == LET p == PatEnc(P) IN \A f \in Perms(k) : ~SeqLess(PatEnc(DRelabel(f, P)), p)

(* The same order through integers (what the exploration and Canon use; MC_Motifs has *)
(* TLC establish that it is the order above).  A sorted tuple over 1..k is read as a  *)
(* k-digit number in base k+1, padded with zeros on the right (so a prefix is         *)
(* smaller); two patterns OF THE SAME SIZE compare as their ascending code sequences, *)
(* i.e. by who owns the least code they do not share.                                 *)
RECURSIVE Pow(_, _)
Pow(b, n) == IF n = 0 THEN 1 ELSE b * Pow(b, n - 1)
TupCode(A, k) == LET F(n) == n * Pow(k + 1, k - Rank(A, n)) IN SumSet(F, A)
EdgeCode(e, k) == TupCode(e[1], k) * Pow(k + 1, k) + TupCode(e[2], k)
ECode3 == [e \in DEdgeU(3) |-> EdgeCode(e, 3)]
ECode4 == [e \in DEdgeU(4) |-> EdgeCode(e, 4)]
Codes(P, k) == IF k = 3 THEN {ECode3[e] : e \in P} ELSE IF k = 4 THEN {ECode4[e] : e \in P}
               ELSE {EdgeCode(e, k) : e \in P}
CodeLess(A, B) == LET d == (A \ B) \cup (B \ A) IN d # {} /\ Min(d) \in A
IsCanonical(P, k) == LET c == Codes(P, k) IN \A f \in Perms(k) : ~CodeLess(Codes(DRelabel(f, P), k), c)
Canon(P, k) == LET orb == DOrbit(P, k)  cd == [Q \in orb |-> Codes(Q, k)]
               IN CHOOSE Q \in orb : \A R \in orb : ~CodeLess(cd[R], cd[Q])

DOcc(D, U, k, P) == LET orb == DOrbit(P, k) IN {S \in KSubsets(U, k) : DPattern(D, S) \in orb}
\* node sets the directed enumeration looks at (anchors): a k-node hyperedge, or (k = 4) a 3-node
\* hyperedge plus a hyperedge meeting it; NOT promised by the statement, kept for information only
DFullSets(D, k) == {DNodes(e) : e \in {e \in D : Cardinality(DNodes(e)) = k}}
DNotFullSets(D, k) == {DNodes(e) \cup DNodes(g) : <<e, g>> \in {p \in D \X D :
                          /\ Cardinality(DNodes(p[1])) = k - 1 /\ DNodes(p[1]) \cap DNodes(p[2]) # {}
                          /\ Cardinality(DNodes(p[1]) \cup DNodes(p[2])) = k}} \ DFullSets(D, k)
DVisited(D, k) == IF k = 4 THEN DFullSets(D, k) \cup DNotFullSets(D, k) ELSE DFullSets(D, k)
DAnchorCensus(D, k) == LET vs == DVisited(D, k)  cn == [S \in vs |-> Canon(DPattern(D, S), k)]
                       IN [c \in {cn[S] : S \in vs} |-> Cardinality({S \in vs : cn[S] = c})]
=============================================================================
