---------------------------- MODULE Persist ----------------------------
(***************************************************************************)
(* File readers of C06 (last sentence of the statement):                   *)
(*   "The hMETIS (.hgr) reader builds exactly the listed hyperedges with   *)
(*    their weights, and the HIF reader builds one hyperedge per described *)
(*    incidence set together with the node, hyperedge and incidence        *)
(*    attribute records of the file."                                      *)
(*                                                                         *)
(* hMETIS: a file is a sequence of lines, each line one of                 *)
(*    [k |-> "t", t |-> <<i1, ..., in>>]   integer tokens                  *)
(*    [k |-> "c", s |-> "%..."]            comment (first non-blank is %)  *)
(*    [k |-> "b", s |-> "  "]              blank (white space only)        *)
(* The first token line is the header  E N [fmt],  fmt in {0, 1, 10, 11}   *)
(* (absent = 0): hyperedge weights are present iff fmt mod 10 = 1, node    *)
(* weight lines follow the hyperedges iff fmt div 10 = 1.  The next E token *)
(* lines are the hyperedges ([weight] node node ...).                      *)
(*                                                                         *)
(* HIF: a document is [nodes, edges, incidences], three sequences of       *)
(* records [node, tok], [edge, tok], [edge, node, tok]; tok stands for the *)
(* whole JSON record (an opaque value: the reader is only promised to keep *)
(* it, never to interpret it).                                             *)
(***************************************************************************)
EXTENDS HGX

---------------------------------------------------------------------------
(* hMETIS *)
HgrIsData(l) == l.k = "t"
HgrData(lines) == SelectSeq(lines, HgrIsData)            \* comment and blank lines are skipped everywhere
HgrHeader(lines) == HgrData(lines)[1].t
HgrE(lines) == HgrHeader(lines)[1]
HgrN(lines) == HgrHeader(lines)[2]
HgrFmt(lines) == IF Len(HgrHeader(lines)) = 3 THEN HgrHeader(lines)[3] ELSE 0
HgrWeighted(lines)    == HgrFmt(lines) % 10 = 1
HgrNodeWeights(lines) == HgrFmt(lines) \div 10 = 1

\* the i-th listed hyperedge: node set and weight (1 when the file has no weight column)
HgrListed(lines) ==
  LET d == HgrData(lines) W == HgrWeighted(lines)
  IN [i \in 1..HgrE(lines) |->
        LET t == d[i + 1].t
        IN [nodes |-> IF W THEN Rng(Tail(t)) ELSE Rng(t), w |-> IF W THEN t[1] ELSE 1]]

\* syntactic validity (the quantifier of the statement)
HgrValid(lines) ==
  LET d == HgrData(lines) IN
  /\ Len(d) >= 1 /\ Len(d[1].t) \in {2, 3}
  /\ HgrFmt(lines) \in {0, 1, 10, 11}
  /\ HgrN(lines) >= 1 /\ HgrE(lines) >= 0
  /\ Len(d) = 1 + HgrE(lines) + (IF HgrNodeWeights(lines) THEN HgrN(lines) ELSE 0)
  /\ \A i \in 2..(1 + HgrE(lines)) :
        LET t  == d[i].t
            ns == IF HgrWeighted(lines) THEN Tail(t) ELSE t
        IN /\ Len(ns) >= 1
           /\ Len(t) = Len(ns) + (IF HgrWeighted(lines) THEN 1 ELSE 0)
           /\ \A j \in DOMAIN ns : ns[j] \in 1..HgrN(lines)
           /\ \A j, l \in DOMAIN ns : j # l => ns[j] # ns[l]
           /\ HgrWeighted(lines) => t[1] >= 1
  /\ \A i \in (2 + HgrE(lines))..Len(d) : Len(d[i].t) = 1
\* corner that is NOT covered: a weighted file that lists the same hyperedge twice
HgrNoRepeat(lines) ==
  LET L == HgrListed(lines) IN \A i, j \in DOMAIN L : i # j => L[i].nodes # L[j].nodes
HgrCovered(lines) == HgrValid(lines) /\ (HgrWeighted(lines) => HgrNoRepeat(lines))

\* the object the reader must build: node set of a hyperedge |-> weight
ParseHgr(lines) ==
  LET L == HgrListed(lines)
      ks == {L[i].nodes : i \in DOMAIN L}
  IN [ns \in ks |-> L[CHOOSE i \in DOMAIN L : L[i].nodes = ns].w]

---------------------------------------------------------------------------
(* HIF *)
HifIncidences(doc, e) == {r \in Rng(doc.incidences) : r.edge = e}
HifIncSet(doc, e) == {r.node : r \in HifIncidences(doc, e)}
HifEdgeNames(doc) == {r.edge : r \in Rng(doc.incidences)}     \* edges that describe an incidence set
HifNodeNames(doc) == {r.node : r \in Rng(doc.nodes)} \cup {r.node : r \in Rng(doc.incidences)}

\* covered: every (edge, node) pair, node name and edge name is described once
HifCovered(doc) ==
  /\ \A i, j \in DOMAIN doc.incidences : i # j =>
        <<doc.incidences[i].edge, doc.incidences[i].node>> # <<doc.incidences[j].edge, doc.incidences[j].node>>
  /\ \A i, j \in DOMAIN doc.nodes : i # j => doc.nodes[i].node # doc.nodes[j].node
  /\ \A i, j \in DOMAIN doc.edges : i # j => doc.edges[i].edge # doc.edges[j].edge

(* ReadHif: one hyperedge per described incidence set (edge names with the   *)
(* same incidence set coincide), and for every node / hyperedge / incidence  *)
(* the SET of records the file gives for it (more than one only when edge    *)
(* names coincide: either record may then be the one that is kept).          *)
ReadHif(doc) ==
  LET es == {HifIncSet(doc, e) : e \in HifEdgeNames(doc)}
      described == {r \in Rng(doc.edges) : r.edge \in HifEdgeNames(doc)}
  IN [nodes |-> HifNodeNames(doc),
      edges |-> es,
      nrec  |-> [n \in {r.node : r \in Rng(doc.nodes)} |-> {r.tok : r \in {x \in Rng(doc.nodes) : x.node = n}}],
      erec  |-> [s \in {HifIncSet(doc, r.edge) : r \in described} |->
                    {r.tok : r \in {x \in described : HifIncSet(doc, x.edge) = s}}],
      irec  |-> [p \in {<<HifIncSet(doc, r.edge), r.node>> : r \in Rng(doc.incidences)} |->
                    {r.tok : r \in {x \in Rng(doc.incidences) : HifIncSet(doc, x.edge) = p[1] /\ x.node = p[2]}}]]

Image(f, S) == {f[x] : x \in S}
Bijections(A, B) == IF Cardinality(A) # Cardinality(B) THEN {}
                    ELSE {f \in [A -> B] : \A x, y \in A : x # y => f[x] # f[y]}

(* built = [nodes : Seq(id), edges : Seq([nodes : Seq(id), tok]),             *)
(*          nmd : Seq(<<id, tok>>), imd : Seq([e : Seq(id), n : id, tok])]    *)
(* The reader may name the nodes of the object as it likes: the object must   *)
(* be ReadHif(doc) up to a bijection of the node names.                       *)
HifEdgesOK(R, built, f) ==
  /\ {Rng(e.nodes) : e \in Rng(built.edges)} = {Image(f, s) : s \in R.edges}
  /\ Len(built.edges) = Cardinality(R.edges)                      \* one hyperedge per incidence set
  /\ \A e \in Rng(built.edges) : Len(e.nodes) = Cardinality(Rng(e.nodes))
HifNodeRecsOK(R, built, f) ==
  \A n \in DOMAIN R.nrec : \E p \in Rng(built.nmd) : p[1] = f[n] /\ p[2] \in R.nrec[n]
HifEdgeRecsOK(R, built, f) ==
  \A s \in DOMAIN R.erec : \E e \in Rng(built.edges) : Rng(e.nodes) = Image(f, s) /\ e.tok \in R.erec[s]
HifIncRecsOK(R, built, f) ==
  \A p \in DOMAIN R.irec : \E r \in Rng(built.imd) :
        Rng(r.e) = Image(f, p[1]) /\ r.n = f[p[2]] /\ r.tok \in R.irec[p]
HifMatches(doc, built, P(_, _, _)) ==
  LET R == ReadHif(doc) IN \E f \in Bijections(R.nodes, Rng(built.nodes)) : P(R, built, f)
=============================================================================
