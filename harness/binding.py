"""Binding between spec-level calls/states (HGX.tla) and the four real containers.

Only the PUBLIC API of /repo is used, never a private attribute: `apply` turns one
spec-level call (spec node ids 1..N, keys {"s","t","x"}) into the real call under a
label map and a random listing order, `state` rebuilds the abstract projection and
`queries` collects the answers of the query methods, all as JSON-able values in spec
node ids.  Lists are logged as lists (the validator compares them as bags).
"""
import contextlib
import io
import random
import warnings

import hypergraphx as hgx
from hypergraphx import Hypergraph, DirectedHypergraph, TemporalHypergraph, MultiplexHypergraph

CLASSES = {"hg": Hypergraph, "dir": DirectedHypergraph, "temp": TemporalHypergraph, "mux": MultiplexHypergraph}
KIND_OF = {v.__name__: k for k, v in CLASSES.items()}

LABEL_FAMILIES = {
    "ident": lambda n: list(range(1, n + 1)),
    "sparse": lambda n: [10, 3, 7, 5, 12, 1, 8, 40, 2, 33][:n],          # order-reversing in places
    "str": lambda n: ["b", "a", "d", "c", "f", "e", "g", "k", "h", "j"][:n],
    "zero": lambda n: list(range(0, n)),
    # labels that are equal-but-not-identical objects when re-created (ints outside the small-int cache,
    # strings built at run time), labels whose hashes collide (hash(-1) == hash(-2)) and whose set
    # iteration order is not ascending, strings of mixed length
    # ... and whole numbers beyond 2**53 that differ by one (floats cannot tell them apart; all of them fit a signed 64-bit word)
    "big": lambda n: [2 ** 53 + 1, 300, 2 ** 53, 5000, 2 ** 40 + 1, 999, 800, 123456, 257, 4096][:n],
    "neg": lambda n: [-1, -2, 13, 8, -7, 21, 10, -30, 16, 9][:n],
    # labels whose decimal / string concatenations collide: (1, 2) vs (12,), ("a", "bc") vs ("ab", "c")
    "cat": lambda n: [1, 2, 12, 21, 11, 112, 121, 211, 22, 122][:n],
    "scat": lambda n: ["a", "bc", "ab", "c", "abc", "b", "ca", "cab", "bca", "aa"][:n],
    "long": lambda n: ["node-b", "node-a", "nd-d", "n-c", "node-f", "ee", "g-g", "hh-8", "i", "node-j"][:n],
}

UNSUPPORTED = {
    "dir": {"remove_node_keep"},
    "temp": {"remove_edges"},
    "mux": {"remove_edges", "remove_nodes", "clear", "set_node_md", "set_edge_md", "copy", "set_inc_md"},
    "hg": set(),
}


@contextlib.contextmanager
def quiet():
    with warnings.catch_warnings():
        warnings.simplefilter("ignore")
        with contextlib.redirect_stdout(io.StringIO()):
            yield


NESTED = {"attributes": {"age": 3, "status": [1, 2]}}      # the concrete value of the abstract value "2"
_flip = [0]


def _val_in(v):
    if v == "2":
        # the same nested value, built with a different key insertion order every other time
        _flip[0] ^= 1
        inner = {"age": 3, "status": [1, 2]} if _flip[0] else {"status": [1, 2], "age": 3}
        return {"attributes": inner}
    if isinstance(v, str) and v.lstrip("-").isdigit():
        return int(v)
    if v == "None":
        return None
    return v


def md_in(md):
    """spec metadata (dict of str -> "0"/"1"/"2") -> a fresh python dict: ints 0 / 1, a nested dict for "2" """
    if md in ([], None):
        return {}
    return {k: _val_in(v) for k, v in md.items()}


def _val_out(v):
    if isinstance(v, dict):
        return "2" if v == NESTED else "dict:" + str(sorted(v.items(), key=str))
    return str(v)


def md_out(md):
    if not isinstance(md, dict):
        return {"__not_a_dict__": str(type(md).__name__)}
    return {str(k): _val_out(v) for k, v in md.items()}


class Binding:
    def __init__(self, kind, labels, rng=None):
        self.kind = kind
        self.labels = list(labels)
        self.inv = {l: i + 1 for i, l in enumerate(self.labels)}
        self.rng = rng or random.Random(0)
        self.cls = CLASSES[kind]

    # -- labels -----------------------------------------------------------
    def lab(self, i):
        """the label of spec node i, as a FRESH object (equal to, but not the same object as, the one
        passed in earlier calls) so that identity-based comparisons in the code under test show"""
        v = self.labels[i - 1]
        if isinstance(v, bool):
            return v
        if isinstance(v, int):
            return int(str(v))
        if isinstance(v, str):
            return "".join(list(v))
        return v

    def unlab(self, x):
        try:
            return self.inv.get(x, -1)
        except TypeError:
            return -1

    def _tuple(self, ids):
        ids = list(ids)
        self.rng.shuffle(ids)
        return tuple(self.lab(i) for i in ids)

    def api_edge(self, k):
        """the 'edge' argument of the real API for key k (time / layer passed separately)"""
        if self.kind == "dir":
            return (self._tuple(k["s"]), self._tuple(k["t"]))
        return self._tuple(k["s"])

    def key_args(self, k):
        """positional arguments identifying key k in get_weight / set_weight / metadata calls"""
        if self.kind in ("hg", "dir"):
            return (self.api_edge(k),)
        return (self.api_edge(k), k["x"])

    def from_api(self, e):
        """an edge as returned by the API -> spec key"""
        try:
            if self.kind == "hg":
                return {"s": sorted(self.unlab(x) for x in e), "t": [], "x": 0}
            if self.kind == "dir":
                return {"s": sorted(self.unlab(x) for x in e[0]), "t": sorted(self.unlab(x) for x in e[1]), "x": 0}
            if self.kind == "temp":
                return {"s": sorted(self.unlab(x) for x in e[1]), "t": [], "x": e[0] if isinstance(e[0], int) else -1}
            if self.kind == "mux":
                return {"s": sorted(self.unlab(x) for x in e[0]), "t": [], "x": str(e[1])}
        except Exception:
            pass
        return {"s": [-1], "t": [], "x": 0 if self.kind != "mux" else "?"}

    # -- calls --------------------------------------------------------------
    def new(self, weighted):
        with quiet():
            return self.cls(weighted=weighted)

    def supported(self, op, obj=None):
        name = op["op"]
        if name == "remove_node" and op.get("keep"):
            if "remove_node_keep" in UNSUPPORTED[self.kind]:
                return False
        if name == "remove_nodes" and op.get("keep") and self.kind == "dir":
            return False
        if name == "add_nodes" and self.kind == "dir" and any(it["hasmd"] for it in op["items"]):
            return False
        return name not in UNSUPPORTED[self.kind]

    def corner(self, op, obj):
        """calls whose contract DESIGN.md section 5 leaves open: not executed, not judged"""
        name = op["op"]
        try:
            if name == "add_edges":
                its = op["items"]
                hasw = any(it["w"] != 0 or it.get("zero") for it in its)
                if hasw and not obj.is_weighted():
                    return True           # weights on an unweighted object
                keys = [(tuple(it["k"]["s"]), tuple(it["k"]["t"]), it["k"]["x"]) for it in its]
                if hasw and len(set(keys)) != len(keys):
                    # repeated key in a weighted batch: the call may be rejected or folded (open
                    # corner), but a rejection must still leave the state unchanged
                    op["mayreject"] = True
            if name == "remove_edges":
                keys = [(tuple(k["s"]), tuple(k["t"]), k["x"]) for k in op["ks"]]
                if len(set(keys)) != len(keys):
                    return True           # the same hyperedge twice in one removal list
            if name == "remove_nodes" and len(set(op["ns"])) != len(op["ns"]):
                return True               # the same node twice in one removal list
            if name in ("remove_node", "remove_nodes") and op.get("keep"):
                ns = [op["n"]] if name == "remove_node" else list(op["ns"])
                gone = set()
                for n in ns:
                    gone.add(n)
                    if not self._has_node(obj, n):
                        continue
                    for e in obj.get_incident_edges(self.lab(n)):
                        k = self.from_api(e)
                        if not (set(k["s"]) - gone):
                            return True   # a hyperedge would become empty
        except Exception:
            return False
        return False

    def _has_node(self, obj, n):
        try:
            return self.lab(n) in obj.get_nodes()
        except Exception:
            return False

    def apply(self, obj, op):
        """execute one spec-level call; returns True iff it did not raise"""
        try:
            with quiet():
                self._apply(obj, op)
            return True
        except Exception:
            return False

    def _time(self, k, bad):
        t = k["x"]
        if bad == "neg":
            return -1 - t
        if bad == "float":
            return t + 0.5
        if bad == "str":
            return str(t)
        return t

    def _apply(self, obj, op):
        kind, name = self.kind, op["op"]
        if name == "add_node":
            if op["hasmd"]:
                obj.add_node(self.lab(op["n"]), metadata=md_in(op["md"]))
            else:
                obj.add_node(self.lab(op["n"]))
        elif name == "add_nodes":
            nodes = [self.lab(it["n"]) for it in op["items"]]
            if any(it["hasmd"] for it in op["items"]):
                md = {self.lab(it["n"]): md_in(it["md"]) for it in op["items"]}
                if kind == "mux":
                    obj.add_nodes(nodes, node_metadata=md)
                else:
                    obj.add_nodes(nodes, metadata=md)
            else:
                obj.add_nodes(nodes)
        elif name == "add_edge":
            kw = {}
            if op.get("zero"):
                kw["weight"] = 0              # the number zero, not "no weight"
            elif op["w"] != 0:
                kw["weight"] = op["w"]
            if op["hasmd"]:
                kw["metadata"] = md_in(op["md"])
            k = op["k"]
            if kind == "dir" and self.rng.random() < 0.12:
                # a source / target set handed over as another collection of the same nodes (the class accepts any iterable)
                e = self.api_edge(k)
                try:
                    obj.add_edge(tuple(self.rng.choice([list, set, frozenset, tuple])(side) for side in e), **kw)
                except TypeError:
                    # a class that refuses such a collection is within its rights (not judged): the call is made again with
                    # tuples; one that accepts it must store the same hyperedge
                    obj.add_edge(e, **kw)
            elif kind in ("hg", "dir"):
                obj.add_edge(self.api_edge(k), **kw)
            elif kind == "temp":
                obj.add_edge(self.api_edge(k), self._time(k, op.get("bad", "")), **kw)
            else:
                obj.add_edge(self.api_edge(k), k["x"], **kw)
        elif name == "add_edges":
            its = op["items"]
            edges = [self.api_edge(it["k"]) for it in its]
            kw = {}
            if any(it["w"] != 0 or it.get("zero") for it in its):
                kw["weights"] = [0 if it.get("zero") else (it["w"] if it["w"] != 0 else 1) for it in its]
            if any(it["hasmd"] for it in its):
                kw["metadata"] = [md_in(it["md"]) for it in its]
            if kind in ("hg", "dir"):
                obj.add_edges(edges, **kw)
            elif kind == "temp":
                obj.add_edges(edges, [self._time(it["k"], it.get("bad", "")) for it in its], **kw)
            else:
                obj.add_edges(edges, [it["k"]["x"] for it in its], **kw)
        elif name == "remove_edge":
            k = op["k"]
            if kind in ("hg", "dir"):
                obj.remove_edge(self.api_edge(k))
            elif kind == "temp":
                obj.remove_edge(self.api_edge(k), k["x"])
            else:
                obj.remove_edge((self.api_edge(k), k["x"]))
        elif name == "remove_edges":
            obj.remove_edges([self.api_edge(k) for k in op["ks"]])
        elif name == "remove_node":
            obj.remove_node(self.lab(op["n"]), keep_edges=op["keep"])
        elif name == "remove_nodes":
            obj.remove_nodes([self.lab(n) for n in op["ns"]], keep_edges=op["keep"])
        elif name == "set_weight":
            obj.set_weight(*self.key_args(op["k"]), op["w"])
        elif name == "set_node_md":
            obj.set_node_metadata(self.lab(op["n"]), md_in(op["md"]))
        elif name == "set_edge_md":
            obj.set_edge_metadata(*self.key_args(op["k"]), md_in(op["md"]))
        elif name == "set_h_md":
            obj.set_hypergraph_metadata(md_in(op["md"]))
        elif name == "set_attr_node":
            obj.set_attr_to_node_metadata(self.lab(op["n"]), op["f"], _val_in(op["v"]))
        elif name == "set_attr_edge":
            obj.set_attr_to_edge_metadata(*self.key_args(op["k"]), op["f"], _val_in(op["v"]))
        elif name == "set_attr_h":
            obj.set_attr_to_hypergraph_metadata(op["f"], _val_in(op["v"]))
        elif name == "del_attr_node":
            obj.remove_attr_from_node_metadata(self.lab(op["n"]), op["f"])
        elif name == "del_attr_edge":
            obj.remove_attr_from_edge_metadata(*self.key_args(op["k"]), op["f"])
        elif name == "set_inc_md":
            k = op["k"]
            if kind == "hg":
                e = tuple(sorted(self.lab(i) for i in k["s"]))     # one listing order: the class keys by it
                obj.set_incidence_metadata(e, self.lab(op["n"]), md_in(op["md"]))
            elif kind == "dir":
                obj.set_incidence_metadata(self.api_edge(k), self.lab(op["n"]), md_in(op["md"]))
            else:
                obj.set_incidence_metadata(self.api_edge(k), k["x"], self.lab(op["n"]), md_in(op["md"]))
        elif name == "clear":
            obj.clear()
        else:
            raise ValueError("unknown op " + name)

    # -- projection -----------------------------------------------------------
    def _weight(self, obj, e):
        if self.kind in ("hg", "dir"):
            return obj.get_weight(e)
        if self.kind == "temp":
            return obj.get_weight(e[1], e[0])
        return obj.get_weight(e[0], e[1])

    def _emd(self, obj, e):
        if self.kind in ("hg", "dir"):
            return obj.get_edge_metadata(e)
        if self.kind == "temp":
            return obj.get_edge_metadata(e[1], e[0])
        return obj.get_edge_metadata(e[0], e[1])

    def _nmd(self, obj, n):
        if self.kind == "mux":
            return obj.get_nodes(metadata=True)[n]
        return obj.get_node_metadata(n)

    def state(self, obj):
        """abstract projection of `obj` through the public API"""
        err = []
        st = {"nodes": [], "edges": [], "nmd": [], "hmd": {}, "wtd": False, "err": ""}
        with quiet():
            try:
                st["wtd"] = bool(obj.is_weighted())
            except Exception as ex:
                err.append("is_weighted:%s" % type(ex).__name__)
            try:
                nodes = list(obj.get_nodes())
            except Exception as ex:
                nodes = []
                err.append("get_nodes:%s" % type(ex).__name__)
            st["nodes"] = [self.unlab(n) for n in nodes]
            for n in nodes:
                try:
                    st["nmd"].append([self.unlab(n), md_out(self._nmd(obj, n))])
                except Exception as ex:
                    err.append("node_metadata:%s" % type(ex).__name__)
            try:
                edges = list(obj.get_edges())
            except Exception as ex:
                edges = []
                err.append("get_edges:%s" % type(ex).__name__)
            for e in edges:
                rec = {"k": self.from_api(e), "w": -1, "md": {}}
                try:
                    w = self._weight(obj, e)
                    if isinstance(w, bool) or not isinstance(w, int):
                        if isinstance(w, float) and w == int(w):
                            w = int(w)
                            err.append("weight_type:float")
                        else:
                            err.append("weight_type:%s" % type(w).__name__)
                            w = -1
                    rec["w"] = w
                except Exception as ex:
                    err.append("get_weight:%s" % type(ex).__name__)
                try:
                    rec["md"] = md_out(self._emd(obj, e))
                except Exception as ex:
                    err.append("get_edge_metadata:%s" % type(ex).__name__)
                st["edges"].append(rec)
            try:
                st["hmd"] = md_out(obj.get_hypergraph_metadata())
            except Exception as ex:
                err.append("hypergraph_metadata:%s" % type(ex).__name__)
        st["err"] = ";".join(sorted(set(err)))
        return st

    # -- queries ----------------------------------------------------------------
    def filters(self, n_nodes, full=True):
        fs = [("none", 0)]
        sizes = range(0, n_nodes + 2) if full else [self.rng.randint(1, n_nodes + 1)]
        for z in sizes:
            fs.append(("eq", z))
            fs.append(("upto", z))
        return fs

    def _fkw(self, f, allow_upto=True):
        """kwargs for filter f, spelled with size= or order= at random"""
        if f[0] == "none":
            return {}
        kw = {"size": f[1]} if self.rng.random() < 0.5 else {"order": f[1] - 1}
        if f[0] == "upto":
            kw["up_to"] = True
        return kw

    @staticmethod
    def _take(v):
        """what a caller may do with a returned listing: keep a copy and empty the list it was handed.  A listing is the
        caller's own object; emptying it must not reach the hypergraph (the next projection would show it)"""
        c = list(v)
        if type(v) is list:
            del v[:]
        return c

    def queries(self, obj, universe, full=True, cc=False):
        kind = self.kind
        q = {}
        N = len(universe)

        def safe(fn, default=None):
            try:
                with quiet():
                    return fn()
            except Exception:
                return default

        nodes = safe(lambda: self._take(obj.get_nodes()), [])
        edges = safe(lambda: self._take(obj.get_edges()), [])
        if kind != "mux":
            v = safe(obj.num_nodes)
            if v is not None:
                q["num_nodes"] = v
            v = safe(obj.num_edges)
            if v is not None:
                q["num_edges"] = v
        # listings per filter
        if kind != "mux":
            byf = []
            for f in self.filters(N, full):
                r = {"f": list(f)}
                kw = self._fkw(f)
                es = safe(lambda: self._take(obj.get_edges(**kw)))
                if es is None:
                    continue
                r["edges"] = [self.from_api(e) for e in es]
                if kind in ("hg", "temp"):
                    v = safe(lambda: obj.num_edges(**self._fkw(f)))
                    if v is not None:
                        r["num"] = v
                ws = safe(lambda: self._take(obj.get_weights(**kw)))
                if ws is not None and all(isinstance(w, int) and not isinstance(w, bool) for w in ws):
                    r["weights"] = ws
                if f[0] != "upto":
                    kw2 = {k: v for k, v in self._fkw(f).items()}
                    ds = safe(lambda: obj.degree_sequence(**kw2))
                    if isinstance(ds, dict):
                        r["degseq"] = [[self.unlab(n), d] for n, d in ds.items()]
                    if kind != "mux":
                        dd = safe(lambda: obj.degree_distribution(**self._fkw(f)))
                        if isinstance(dd, dict):
                            r["degdist"] = [[d, c] for d, c in dd.items()]
                byf.append(r)
            q["byf"] = byf
        else:
            ds = safe(lambda: obj.degree_sequence())
            r = {"f": ["none", 0], "edges": [self.from_api(e) for e in edges]}
            if isinstance(ds, dict):
                r["degseq"] = [[self.unlab(n), d] for n, d in ds.items()]
            q["byf"] = [r]
        # per node
        bynode = []
        nfs = [f for f in self.filters(N, full) if f[0] != "upto"]
        if kind == "mux":
            nfs = [("none", 0)]
        for n in nodes:
            for f in nfs:
                r = {"n": self.unlab(n), "f": list(f)}
                v = safe(lambda: self._take(obj.get_incident_edges(n, **self._fkw(f))))
                if v is not None:
                    r["inc"] = [self.from_api(e) for e in v]
                if kind == "dir":
                    v = safe(lambda: self._take(obj.get_source_edges(n, **self._fkw(f))))
                    if v is not None:
                        r["src"] = [self.from_api(e) for e in v]
                    v = safe(lambda: self._take(obj.get_target_edges(n, **self._fkw(f))))
                    if v is not None:
                        r["tgt"] = [self.from_api(e) for e in v]
                if kind != "mux":
                    v = safe(lambda: obj.get_neighbors(n, **self._fkw(f)))
                    if v is not None:
                        try:
                            r["neigh"] = [self.unlab(x) for x in v]
                        except Exception:
                            r["neigh"] = [-1]
                v = safe(lambda: obj.degree(n, **self._fkw(f)))
                if isinstance(v, int):
                    r["deg"] = v
                if kind == "dir":
                    from hypergraphx.measures.directed import in_degree, out_degree
                    v = safe(lambda: in_degree(obj, n, **self._fkw(f)))
                    if isinstance(v, int):
                        r["indeg"] = v
                    v = safe(lambda: out_degree(obj, n, **self._fkw(f)))
                    if isinstance(v, int):
                        r["outdeg"] = v
                bynode.append(r)
        q["bynode"] = bynode
        # membership
        if kind != "mux":
            cn = []
            for i in universe:
                v = safe(lambda: obj.check_node(self.lab(i)))
                if v is not None:
                    cn.append([i, bool(v)])     # truthiness is what a caller tests
            q["check_node"] = cn
            ce = []
            present = [self.from_api(e) for e in edges]
            cand = list(present)
            for _ in range(3):
                cand.append(self.random_key(universe))
            for k in cand:
                if not k["s"] or -1 in k["s"] or (kind == "dir" and not k["t"]):
                    continue
                v = safe(lambda: obj.check_edge(*self.key_args(k)))
                if isinstance(v, bool):
                    ce.append([k, v])
            q["check_edge"] = ce
            for name, meth in (("sizes", "get_sizes"), ("orders", "get_orders")):
                v = safe(getattr(obj, meth))
                if v is not None:
                    q[name] = list(v)
            v = safe(obj.distribution_sizes)
            if isinstance(v, dict):
                q["dist_sizes"] = [[a, b] for a, b in v.items()]
            if edges:
                for name in ("max_size", "max_order"):
                    v = safe(getattr(obj, name))
                    if isinstance(v, int):
                        q[name] = v
            v = safe(obj.is_uniform)
            if isinstance(v, bool):
                q["is_uniform"] = v
        v = safe(obj.is_weighted)
        if isinstance(v, bool):
            q["is_weighted"] = v
        # metadata views
        v = safe(lambda: obj.get_nodes(metadata=True))
        if isinstance(v, dict):
            q["nodes_md"] = [[self.unlab(n), md_out(m)] for n, m in v.items()]
        v = safe(lambda: obj.get_edges(metadata=True))
        if isinstance(v, dict):
            q["edges_md"] = [[self.from_api(e), md_out(m)] for e, m in v.items()]
        if kind != "mux":
            v = safe(obj.get_all_nodes_metadata)
            if isinstance(v, dict):
                q["all_nodes_md_keys"] = [self.unlab(n) for n in v.keys()]
            elif isinstance(v, list):
                q["all_nodes_md"] = [md_out(m) for m in v]
            v = safe(obj.get_all_edges_metadata)
            if isinstance(v, dict):
                q["all_edges_md_n"] = len(v)
        imd = self.incidence_md(obj)
        if imd is not None:
            q["imd"] = imd
        if kind == "dir":
            v = safe(obj.get_sources)
            if v is not None:
                q["sources"] = [[self.unlab(x) for x in s] for s in v]
            v = safe(obj.get_targets)
            if v is not None:
                q["targets"] = [[self.unlab(x) for x in s] for s in v]
        if kind == "temp":
            ts = sorted({k["x"] for k in (self.from_api(e) for e in edges)} | {0})
            hi = (max(ts) if ts else 0) + 2
            wins = []
            for a in range(0, hi + 1):
                for b in range(a, hi + 1):
                    f = ("none", 0) if self.rng.random() < 0.6 else self.rng.choice(self.filters(N, True))
                    kw = self._fkw(f)
                    v = safe(lambda: self._take(obj.get_edges(time_window=(a, b), **kw)))
                    if v is not None:
                        wins.append({"a": a, "b": b, "f": list(f), "edges": [self.from_api(e) for e in v]})
            q["windows"] = wins
            tof = []
            seen = set()
            for e in edges:
                k = self.from_api(e)
                if tuple(k["s"]) in seen or -1 in k["s"]:
                    continue
                seen.add(tuple(k["s"]))
                v = safe(lambda: list(obj.get_times_for_edge(self._tuple(k["s"]))))
                if v is not None:
                    tof.append([k["s"], v])
            q["times_of"] = tof
            if edges:
                for name in ("min_time", "max_time"):
                    v = safe(getattr(obj, name))
                    if isinstance(v, int):
                        q[name] = v
        if kind == "mux":
            v = safe(obj.get_existing_layers)
            if v is not None:
                q["layers"] = [str(x) for x in v]
            from hypergraphx.measures.multiplex import edge_overlap
            ov = []
            seen = set()
            for e in edges:
                k = self.from_api(e)
                if tuple(k["s"]) in seen or -1 in k["s"]:
                    continue
                seen.add(tuple(k["s"]))
                v = safe(lambda: edge_overlap(obj, self._tuple(k["s"])))
                if isinstance(v, int):
                    ov.append([k["s"], v])
            q["overlap"] = ov
        if cc and kind == "hg":
            q["cc"] = self.cc_queries(obj, nodes, N)
        return q

    def incidence_md(self, obj):
        """the (hyperedge, node) -> metadata table as the class reports it (None if the class has none)"""
        if self.kind not in ("hg", "dir", "temp"):
            return None
        try:
            with quiet():
                v = obj.get_all_incidences_metadata()
        except Exception:
            return None
        if not isinstance(v, dict):
            return None
        imd = []
        for kn, m in v.items():
            try:
                imd.append([self.from_api(kn[0]), self.unlab(kn[1]), md_out(m)])
            except Exception:
                pass
        return imd

    def cc_queries(self, obj, nodes, N):
        import hypergraphx.utils.cc as ccm
        out = []

        def safe(fn):
            try:
                with quiet():
                    return fn()
            except Exception:
                return None

        for f in [("none", 0)] + [("eq", z) for z in range(1, N + 2)]:
            r = {"f": list(f)}
            via_method = self.rng.random() < 0.5
            tgt = obj if via_method else None

            def call(name, *a):
                kw = self._fkw(f)
                if via_method:
                    return getattr(obj, name)(*a, **kw)
                return getattr(ccm, name)(obj, *a, **kw)

            v = safe(lambda: call("connected_components"))
            if v is not None:
                r["comps"] = [[self.unlab(x) for x in c] for c in v]
            v = safe(lambda: call("num_connected_components"))
            if isinstance(v, int):
                r["num"] = v
            v = safe(lambda: call("is_connected"))
            if isinstance(v, bool):
                r["is_connected"] = v
            if nodes:
                v = safe(lambda: call("largest_component"))
                if v is not None:
                    r["largest"] = [self.unlab(x) for x in v]
                v = safe(lambda: call("largest_component_size"))
                if isinstance(v, int):
                    r["largest_size"] = v
            v = safe(lambda: call("isolated_nodes"))
            if v is not None:
                r["isolated"] = [self.unlab(x) for x in v]
            bn = []
            for n in nodes:
                c = safe(lambda: call("node_connected_component", n))
                i = safe(lambda: call("is_isolated", n))
                if c is not None and isinstance(i, bool):
                    bn.append([self.unlab(n), [self.unlab(x) for x in c], i])
            r["bynode"] = bn
            out.append(r)
        return out

    def random_key(self, universe, xs=None):
        rng = self.rng
        u = list(universe)
        if self.kind == "dir":
            a = rng.sample(u, rng.randint(1, max(1, len(u) - 1)))
            rest = [x for x in u if x not in a]
            if not rest:
                rest = [a.pop()]
            b = rng.sample(rest, rng.randint(1, len(rest)))
            return {"s": sorted(a), "t": sorted(b), "x": 0}
        s = sorted(rng.sample(u, rng.randint(1, len(u))))
        if self.kind == "temp":
            return {"s": s, "t": [], "x": rng.choice(xs or [0, 1, 2])}
        if self.kind == "mux":
            return {"s": s, "t": [], "x": rng.choice(xs or ["L1", "L2"])}
        return {"s": s, "t": [], "x": 0}
