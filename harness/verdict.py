"""Verdicts, replay files, known findings and evidence files.

exit 0  nothing rejected, or only findings listed in known_findings.json
exit 1  at least one unlisted rejection: `VIOLATION property=<id> replay=<path>`
exit 2  machinery failure (TLC crashed, trace not fully consumed, ...): never a verdict
"""
import hashlib
import json
import os
import sys
import time

ROOT = os.path.dirname(os.path.dirname(os.path.abspath(__file__)))
# runs against a scratch copy (VERIF_REPO set: seeded changes, proposed patches) must not overwrite
# the evidence of /repo itself
_SCRATCH = os.environ.get("VERIF_REPO", "/repo").rstrip("/") != "/repo"
EVID = os.path.join(ROOT, ".work", "evidence_scratch") if _SCRATCH else os.path.join(ROOT, "evidence")
REPLAYS = os.path.join(ROOT, ".work", "replays_scratch") if _SCRATCH else os.path.join(ROOT, "replays")
KNOWN = os.path.join(ROOT, "known_findings.json")


def load_known():
    if not os.path.exists(KNOWN):
        return []
    with open(KNOWN) as f:
        return json.load(f)["findings"]


def sig_matches(entry_sig, sig):
    """a known-finding signature matches when every field it names agrees
    (lists in the entry are 'any of', '*' suffix is a prefix match)"""
    for k, v in entry_sig.items():
        x = sig.get(k)
        if isinstance(v, list):
            if isinstance(x, list):
                if not set(x) <= set(v):
                    return False
            elif x not in v:
                return False
        elif isinstance(v, str) and v.endswith("*"):
            if not (isinstance(x, str) and x.startswith(v[:-1])):
                return False
        elif x != v:
            return False
    return True


class Result:
    def __init__(self, prop, tier, seed, level):
        self.prop, self.tier, self.seed, self.level = prop, tier, seed, level
        self.t0 = time.time()
        self.rejections = []      # dict(sig=..., what=..., replay=payload)
        self.notes = []
        self.coverage = {"samples": []}
        self.assumptions = []
        self.drift = []

    # -- collecting ----------------------------------------------------------
    def reject(self, sig, what, payload):
        """sig: dict identifying the failing input/call site; payload: enough to re-execute"""
        self.rejections.append({"sig": sig, "what": what, "payload": payload})

    def model_drift(self, what):
        self.drift.append(what)

    def cov(self, **kw):
        for k, v in kw.items():
            if isinstance(v, (int, float)) and isinstance(self.coverage.get(k), (int, float)) and not isinstance(v, bool):
                self.coverage[k] += v
            else:
                self.coverage[k] = v

    def sample(self, s, cap=4):
        if len(self.coverage["samples"]) < cap:
            self.coverage["samples"].append(s)

    def assume(self, *a):
        for x in a:
            if x not in self.assumptions:
                self.assumptions.append(x)

    # -- finishing -------------------------------------------------------------
    def finish(self):
        known = [k for k in load_known() if k.get("property") == self.prop and k.get("status") == "known"]
        printed_known, violations = set(), []
        for r in self.rejections:
            hit = None
            for k in known:
                if sig_matches(k["signature"], r["sig"]):
                    hit = k
                    break
            if hit is not None:
                if hit["id"] not in printed_known:
                    printed_known.add(hit["id"])
                    print("KNOWN-FINDING: property=%s %s" % (self.prop, hit["what"]))
                continue
            violations.append(r)
        for d in self.drift[:5]:
            print("MODEL-DRIFT property=%s %s" % (self.prop, d))
        # one replay file per distinct signature
        seen = {}
        for r in violations:
            key = json.dumps(r["sig"], sort_keys=True)
            if key in seen:
                seen[key]["count"] += 1
                continue
            seen[key] = {"count": 1, "r": r}
        evid = os.path.join(EVID, "ext") if self.prop.startswith("X") else EVID
        os.makedirs(evid, exist_ok=True)
        for key, v in seen.items():
            os.makedirs(REPLAYS, exist_ok=True)
            h = hashlib.sha1(key.encode()).hexdigest()[:10]
            path = os.path.join(REPLAYS, "%s-%s.json" % (self.prop, h))
            with open(path, "w") as f:
                json.dump({"property": self.prop, "signature": v["r"]["sig"], "what": v["r"]["what"],
                           "occurrences": v["count"], "seed": self.seed, "tier": self.tier,
                           "payload": v["r"]["payload"]}, f, indent=1, default=str)
            print("VIOLATION property=%s replay=%s" % (self.prop, path))
            print("  what: %s (x%d)" % (v["r"]["what"], v["count"]))
        cov = dict(self.coverage)
        cov["known_findings_hit"] = sorted(printed_known)
        cov["model_drift"] = self.drift[:20]
        if not cov.get("samples"):
            cov["samples"] = ["(none)"]
        ev = {"property_id": self.prop, "tier": self.tier, "seed": self.seed, "level": self.level,
              "coverage": cov, "assumptions": self.assumptions, "wall_s": round(time.time() - self.t0, 2),
              "violations": len(seen)}
        with open(os.path.join(evid, "%s.json" % self.prop), "w") as f:
            json.dump(ev, f, indent=1, default=str)
        status = "FAIL" if seen else "PASS"
        print("%s %s tier=%s seed=%d wall=%.1fs %s" % (
            self.prop, status, self.tier, self.seed, time.time() - self.t0,
            " ".join("%s=%s" % (k, v) for k, v in cov.items()
                     if isinstance(v, (int, float, bool)) and not isinstance(v, list))))
        return 1 if seen else 0


def machinery_failure(prop, msg):
    print("MACHINERY-FAILURE property=%s %s" % (prop, msg), file=sys.stderr)
    print("MACHINERY-FAILURE property=%s (see stderr)" % prop)
    return 2
