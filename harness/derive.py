"""Extra event kinds interleaved into container replays: derived objects (C05, C03, C04),
save/load (C06), hashing (C07), metadata filters (C19).  Every function returns what is
logged in the event; the source object's projection is logged by the Replayer afterwards, so
"the derivation changed nothing" is the ordinary step clause of a pure call."""
import json
import itertools
import os
import shutil
import tempfile

from .binding import Binding, quiet, md_out, KIND_OF

RESERVED = ("weight", "time", "layer")


def _safe(fn):
    try:
        with quiet():
            return fn(), None
    except Exception as ex:  # noqa
        return None, type(ex).__name__


def _sub_state(b, obj, kind=None):
    """projection of a derived object (same labels; kind may differ from the source's)"""
    kb = b if kind in (None, b.kind) else Binding(kind, b.labels, b.rng)
    return kb.state(obj)


def sub_hypergraphs(r, obj, exhaustive=True):
    """C05: every selection the class offers"""
    b, rng, N = r.b, r.rng, r.n
    d = []
    nodes, _ = _safe(lambda: list(obj.get_nodes()))
    nodes = nodes or []
    fs = [("none", 0)] + [(m, z) for z in range(1, N + 2) for m in ("eq", "upto")]
    if not exhaustive:
        fs = rng.sample(fs, 3)
    # a caller that lists the hyperedges of a selection first and uses up the list it was handed: the listing is the caller's
    # own object, emptying it must not reach the hypergraph nor the sub-hypergraphs extracted afterwards
    for f in fs:
        lst, _ = _safe(lambda: obj.get_edges(**b._fkw(f)))
        if type(lst) is list:
            del lst[:]
    for f in fs:
        for keep in (False, True):
            kw = b._fkw(f)
            kw["subhypergraph"] = True
            if keep:
                kw["keep_isolated_nodes"] = True
            h, err = _safe(lambda: obj.get_edges(**kw))
            if h is not None:
                d.append({"what": "edges_sub", "f": list(f), "keep_isolated": keep, "res": _sub_state(b, h)})
    if b.kind == "hg":
        subsets = []
        for m in range(0, len(nodes) + 1):
            subsets += list(itertools.combinations(nodes, m))
        if not exhaustive or len(subsets) > 40:
            subsets = rng.sample(subsets, min(len(subsets), 6 if not exhaustive else 40))
        for X in subsets:
            X = list(X)
            rng.shuffle(X)
            h, err = _safe(lambda: obj.subhypergraph(X))
            if h is not None:
                d.append({"what": "induced", "X": [b.unlab(x) for x in X], "res": _sub_state(b, h)})
        size_lists = [[z] for z in range(1, N + 1)] + [rng.sample(range(1, N + 2), rng.randint(0, 3)) for _ in range(3)]
        if not exhaustive:
            size_lists = rng.sample(size_lists, 2)
        for zs in size_lists:
            for keep in (True, False):
                if rng.random() < 0.5:
                    h, err = _safe(lambda: obj.subhypergraph_by_orders(sizes=list(zs), keep_nodes=keep))
                else:
                    h, err = _safe(lambda: obj.subhypergraph_by_orders(orders=[z - 1 for z in zs], keep_nodes=keep))
                if h is not None:
                    d.append({"what": "by_sizes", "sizes": list(zs), "keep_nodes": keep, "res": _sub_state(b, h)})
        if nodes:
            for f in [("none", 0)] + [("eq", z) for z in range(1, N + 1)]:
                h, err = _safe(lambda: obj.subhypergraph_largest_component(**b._fkw(f)))
                if h is not None:
                    d.append({"what": "largest_sub", "f": list(f), "res": _sub_state(b, h)})
    return d


def temporal_derivations(r, obj):
    """C03: snapshots for every window, aggregate for every width"""
    b = r.b
    d = []
    edges, _ = _safe(lambda: list(obj.get_edges()))
    ts = [e[0] for e in (edges or []) if isinstance(e[0], int)]
    hi = (max(ts) if ts else 0) + 2
    res, err = _safe(lambda: obj.subhypergraph())
    if res is not None:
        d.append({"what": "snapshots", "bounded": False, "a": 0, "b": 0,
                  "res": [[t, _sub_state(b, h, "hg")] for t, h in res.items()]})
    for a in range(0, hi + 1):
        for bb in range(a, hi + 1):
            if r.rng.random() < 0.5:
                continue
            add_all = r.rng.random() < 0.3
            res, err = _safe(lambda: obj.subhypergraph(time_window=(a, bb), add_all_nodes=add_all))
            if res is not None:
                d.append({"what": "snapshots", "bounded": True, "a": a, "b": bb,
                          "res": [[t, _sub_state(b, h, "hg")] for t, h in res.items()]})
    for w in range(1, hi + 1):
        res, err = _safe(lambda: obj.aggregate(w))
        if res is not None:
            d.append({"what": "aggregate", "width": w,
                      "res": [[i, _sub_state(b, h, "hg")] for i, h in res.items()]})
    return d


def multiplex_derivations(r, obj):
    b = r.b
    d = []
    h, err = _safe(lambda: obj.aggregated_hypergraph())
    if h is not None:
        d.append({"what": "mux_aggregated", "res": _sub_state(b, h, "hg")})
    return d


def derive_event(r, oid, what):
    obj = r.objs[oid]
    if what == "sub":
        d = sub_hypergraphs(r, obj, exhaustive=r.exhaustive_derive)
    elif what == "temporal":
        d = temporal_derivations(r, obj)
    elif what == "mux":
        d = multiplex_derivations(r, obj)
    else:
        raise ValueError(what)
    return {"op": {"op": "derive", "what": what}, "d": d}


# ---------------------------------------------------------------------------
def saveload_event(r, oid, binary):
    """C06: save to a scratch file, load it back, project the loaded object"""
    from hypergraphx.readwrite.save import save_hypergraph
    from hypergraphx.readwrite.load import load_hypergraph
    obj = r.objs[oid]
    tmp = tempfile.mkdtemp(prefix="sl-", dir=r.scratch)
    try:
        path = os.path.join(tmp, "h.hgx" if binary else "h.json")
        _, err = _safe(lambda: save_hypergraph(obj, path, binary=binary))
        ev = {"op": {"op": "saveload", "binary": binary}, "ok": err is None}
        if err is None:
            h, lerr = _safe(lambda: load_hypergraph(path))
            if h is None:
                ev["loaded"] = {"ok": False, "cls": "", "err": lerr,
                                "res": {"nodes": [], "edges": [], "nmd": [], "hmd": {}, "wtd": False, "err": ""}}
            else:
                kind = KIND_OF.get(type(h).__name__)
                st = (Binding(kind, r.b.labels, r.rng).state(h) if kind else
                      {"nodes": [], "edges": [], "nmd": [], "hmd": {}, "wtd": False, "err": ""})
                ev["loaded"] = {"ok": True, "cls": type(h).__name__, "res": st}
                if kind == r.kind:
                    ev["_obj"] = h
        return ev
    finally:
        shutil.rmtree(tmp, ignore_errors=True)


def _reorder(v):
    """the same value with every dictionary rebuilt in reversed key insertion order"""
    if isinstance(v, dict):
        return {k: _reorder(v[k]) for k in reversed(list(v.keys()))}
    if isinstance(v, list):
        return [_reorder(x) for x in v]
    return v


def reordered_twin(r, obj):
    """a copy of obj with equal content whose metadata dictionaries (all levels, nested ones too) were
    re-created with another key insertion order, through the public setters the class offers"""
    h = obj.copy()
    b = r.b
    h.set_hypergraph_metadata(_reorder(h.get_hypergraph_metadata()))
    if b.kind != "mux":
        for n in list(h.get_nodes()):
            h.set_node_metadata(n, _reorder(h.get_node_metadata(n)))
        for e in list(h.get_edges()):
            if b.kind in ("hg", "dir"):
                h.set_edge_metadata(e, _reorder(h.get_edge_metadata(e)))
            else:
                h.set_edge_metadata(e[1], e[0], _reorder(h.get_edge_metadata(e[1], e[0])))
    else:
        for e in list(h.get_edges()):
            md = dict(h.get_edge_metadata(e[0], e[1]))
            for k in list(md.keys()):
                h.remove_attr_from_edge_metadata(e[0], e[1], k)
            for k in reversed(list(md.keys())):
                h.set_attr_to_edge_metadata(e[0], e[1], k, _reorder(md[k]))
    return h


def rebuilt_twin(r, obj):
    """a FRESH object of the same class holding the same content, built through the public API in the opposite order:
    nodes and hyperedges inserted in reversed listing order, the nodes of every hyperedge listed in reversed order.
    Returns None unless the twin's abstract state equals the original's (then, and only then, equal hashes are demanded)"""
    import copy
    b = r.b
    kind = b.kind
    wtd = bool(obj.is_weighted())
    h = type(obj)(weighted=wtd)
    for n in reversed(list(obj.get_nodes())):
        md = b._nmd(obj, n)
        if md:
            h.add_node(n, metadata=copy.deepcopy(md))
        else:
            h.add_node(n)
    for e in reversed(list(obj.get_edges())):
        kw = {"metadata": copy.deepcopy(b._emd(obj, e))}
        if wtd:
            kw["weight"] = b._weight(obj, e)
        if kind == "hg":
            h.add_edge(tuple(reversed(tuple(e))), **kw)
        elif kind == "dir":
            h.add_edge((tuple(reversed(tuple(e[0]))), tuple(reversed(tuple(e[1])))), **kw)
        elif kind == "temp":
            h.add_edge(tuple(reversed(tuple(e[1]))), e[0], **kw)
        else:
            h.add_edge(tuple(reversed(tuple(e[0]))), e[1], **kw)
    h.set_hypergraph_metadata(copy.deepcopy(obj.get_hypergraph_metadata()))

    def canon(st):
        return (sorted(st["nodes"]), sorted(json.dumps(x, sort_keys=True) for x in st["edges"]),
                sorted(json.dumps(x, sort_keys=True) for x in st["nmd"]), json.dumps(st["hmd"], sort_keys=True), st["wtd"], st["err"])
    s1, s2 = b.state(obj), b.state(h)
    if s1["err"] or canon(s1) != canon(s2):
        return None
    # the concrete values too (the abstract state does not tell 1 from 1.0, nor a nested value's spelling)
    for e in obj.get_edges():
        w1, w2 = b._weight(obj, e), b._weight(h, e)
        if type(w1) is not type(w2) or w1 != w2 or b._emd(obj, e) != b._emd(h, e):
            return None
    for n in obj.get_nodes():
        if b._nmd(obj, n) != b._nmd(h, n):
            return None
    if obj.get_hypergraph_metadata() != h.get_hypergraph_metadata():
        return None
    return h


def hash_event(r, oid):
    from hypergraphx.readwrite.hashing import hash_hypergraph
    obj = r.objs[oid]
    dg, err = _safe(lambda: hash_hypergraph(obj))
    ev = {"op": {"op": "hash"}, "ok": err is None}
    if dg is not None:
        ev["digest"] = str(dg)
        # metamorphic twin: equal content, metadata dictionaries created in another key order
        # metamorphic twin: equal content inserted in the opposite order into a fresh object (every container type)
        rb, rerr = _safe(lambda: rebuilt_twin(r, obj))
        if rb is not None:
            rd, rerr = _safe(lambda: hash_hypergraph(rb))
            if rd is not None:
                ev["digest_rebuilt"] = str(rd)
        if "copy" not in __import__("harness.binding", fromlist=["UNSUPPORTED"]).UNSUPPORTED[r.b.kind]:
            tw, terr = _safe(lambda: hash_hypergraph(reordered_twin(r, obj)))
            if tw is not None:
                ev["digest_reordered"] = str(tw)
            # two copies whose contents differ in ONE weight by a tiny amount (same numeric type: float)
            def close_pair():
                h = obj.copy()
                es = list(h.get_edges())
                if not es or not h.is_weighted():
                    return None
                e = es[r.rng.randrange(len(es))]
                args = (e,) if r.b.kind in ("hg", "dir") else (e[1], e[0])
                u = r.rng.random()
                if u < 0.25:
                    # ... or the weights 0 and 1 (an explicit zero is a weight like any other: DESIGN.md section 2)
                    h.set_weight(*args, 0)
                    a = hash_hypergraph(h)
                    h.set_weight(*args, 1)
                    return a, hash_hypergraph(h)
                if u < 0.55:
                    # ... or two whole numbers (same type: int) beyond 2**53, where floats can no longer tell neighbours apart
                    w = 2 ** 53 + 2 * r.rng.randrange(0, 2 ** 20)
                    h.set_weight(*args, w)
                    a = hash_hypergraph(h)
                    h.set_weight(*args, w + 1)
                    return a, hash_hypergraph(h)
                w = float(h.get_weight(*args))
                h.set_weight(*args, w)
                a = hash_hypergraph(h)
                h.set_weight(*args, w + 2.0 ** -34 * max(1.0, abs(w)))
                return a, hash_hypergraph(h)
            cp, cerr = _safe(close_pair)
            if cp is not None:
                ev["digest_close"] = [str(cp[0]), str(cp[1])]
    return ev


# ---------------------------------------------------------------------------
def random_criteria(rng):
    crit = []
    # now and then the EMPTY criteria dictionary: every item matches it (no attribute to disagree on)
    for a in rng.sample(["a", "b"], rng.choice([0, 1, 1, 1, 2, 2, 2])):
        vals = rng.sample(["0", "1"], rng.randint(1, 2))
        crit.append([a, vals])
    return crit


def filter_call(r, oid):
    """C19: filter_hypergraph as one mutating call"""
    from hypergraphx.filters import filter_hypergraph
    rng = r.rng
    obj = r.objs[oid]
    hasn, hase = rng.random() < 0.7, rng.random() < 0.7
    if not hasn and not hase:
        hasn = True
    op = {"op": "filter", "hasn": hasn, "ncrit": random_criteria(rng) if hasn else [],
          "hase": hase, "ecrit": random_criteria(rng) if hase else [],
          "mode": rng.choice(["keep", "remove"]), "keep": r.kind != "dir" and rng.random() < 0.5}
    to_api = lambda c: {a: [int(v) for v in vals] for a, vals in c}
    if op["keep"]:
        # open corner: shrinking must not empty a hyperedge (DESIGN.md section 5)
        try:
            with quiet():
                hit = set()
                for n, md in obj.get_nodes(metadata=True).items():
                    m = all(md.get(a) in vals for a, vals in to_api(op["ncrit"]).items()) if hasn else None
                    if hasn and ((op["mode"] == "keep" and not m) or (op["mode"] == "remove" and m)):
                        hit.add(n)
                for e in obj.get_edges():
                    k = r.b.from_api(e)
                    if not (set(k["s"]) - {r.b.unlab(x) for x in hit}):
                        return None
        except Exception:
            return None
    kw = {"mode": op["mode"], "keep_edges": op["keep"]}
    if hasn:
        kw["node_criteria"] = to_api(op["ncrit"])
    if hase:
        kw["edge_criteria"] = to_api(op["ecrit"])
    _, err = _safe(lambda: filter_hypergraph(obj, **kw))
    return {"op": op, "ok": err is None}
