"""Behaviour generation, replay into the real containers and trace validation (C01-C08, C19)."""
import json
import os
import random
import shutil
import concurrent.futures as cf

from . import tlc
from .binding import Binding, LABEL_FAMILIES, quiet

TYPE_NAME = {"hg": "Hypergraph", "dir": "DirectedHypergraph", "temp": "TemporalHypergraph",
             "mux": "MultiplexHypergraph"}
XS = {"hg": [0], "dir": [0], "temp": [0, 1, 2], "mux": ["L1", "L2"]}


def consts(kind, weighted, n=3, maxw=2, batches=True, metaops=True, xs=None, mkeys=("a",), mvals=("0", "1")):
    return {"Kind": kind, "Node": set(range(1, n + 1)), "MaxW": maxw, "MKeys": set(mkeys),
            "MVals": set(mvals), "XS": set(xs if xs is not None else XS[kind]),
            "Weighted": weighted, "Batches": batches, "MetaOps": metaops}


# ---------------------------------------------------------------------------
# spec -> behaviours
def tlc_behaviours(kind, weighted, n=3, depth=8, num=40, seed=1, invalid_every=4, exhaustive=False,
                   batches=True, metaops=True, maxw=2, xs=None, limit=None, timeout=600):
    """behaviours (lists of spec-level calls) produced by TLC from Gen_HGX"""
    c = consts(kind, weighted, n=n, maxw=maxw, batches=batches, metaops=metaops, xs=xs)
    c.update({"Depth": depth, "InvalidEvery": invalid_every, "Balanced": not exhaustive})
    cfg = tlc.cfg_text(c, constraints=["Bound", "Emit"])
    if exhaustive:
        res = tlc.run("Gen_HGX", cfg, workers=1, timeout=timeout)
    else:
        res = tlc.run("Gen_HGX", cfg, workers=1, simulate=num, depth=depth, seed=seed, timeout=timeout)
    lines = tlc.printed_strings(res["out"], "[")
    if not lines:
        raise tlc.TLCError("Gen_HGX produced no behaviour:\n" + tlc.error_excerpt(res["out"]))
    seen, out = set(), []
    for s in lines:
        if s in seen:
            continue
        seen.add(s)
        out.append(json.loads(s))
    if limit and len(out) > limit:
        rng = random.Random(seed)
        # keep the behaviours TLC actually walked (last ones printed per trace are siblings of the
        # last step); a uniform sample over all printed ones keeps both
        out = rng.sample(out, limit)
    return out, {"generated": len(lines), "distinct": len(out), "wall": res["wall"]}


def _md(rng, p=0.5, hyper=False):
    if rng.random() < p:
        return {}
    pool = ["a", "b", "weighted"] if hyper else ["a", "b"]
    keys = rng.sample(pool, rng.randint(1, 2))
    # "None" stands for the value None: an attribute that is present and holds None is not an absent attribute
    return {k: rng.choice(["0", "1", "1", "2", "0", "1", "1", "2", "None"]) for k in keys}


def py_behaviour(kind, weighted, n, length, rng, xs=None):
    """harness-side generator, biased to insert / remove / re-insert / shrink interleavings on a
    larger universe than TLC enumerates; calls are in the same spec-level format"""
    xs = xs or XS[kind]
    u = list(range(1, n + 1))
    b = Binding(kind, u, rng)
    recent = []
    ops = []

    def key():
        if recent and rng.random() < 0.55:
            k = rng.choice(recent)
            if rng.random() < 0.25 and kind in ("temp", "mux"):
                k = dict(k, x=rng.choice(xs))
            return k
        k = b.random_key(u, xs)
        recent.append(k)
        del recent[:-6]
        return k

    def w():
        if not weighted:
            return rng.choice([0, 1, 2, 2]) if rng.random() < 0.2 else rng.choice([0, 1])
        return rng.choice([0, 1, 2, 3])

    def mdarg():
        if rng.random() < 0.5:
            return {"hasmd": False, "md": {}}
        return {"hasmd": True, "md": _md(rng, 0.2)}

    for _ in range(length):
        r = rng.random()
        if r < 0.30:
            o = {"op": "add_edge", "k": key(), "w": w(), "bad": ""}
            if not weighted and o["w"] == 2 and rng.random() < 0.7:
                # a call that must be rejected carries fresh entities (an unused layer / time, any node set):
                # whatever it leaks into the object becomes visible
                fresh = dict(b.random_key(u, xs))
                if kind == "mux":
                    fresh["x"] = "L9"
                elif kind == "temp":
                    fresh["x"] = 7
                o["k"] = fresh
            if weighted and rng.random() < 0.08:
                o.update({"w": 0, "zero": True})      # weight 0 given explicitly
            o.update(mdarg())
            if kind == "temp" and rng.random() < 0.08:
                o["bad"] = rng.choice(["neg", "float", "str"])
        elif r < 0.40:
            k = key()
            if kind == "temp" and recent and rng.random() < 0.5:
                # boundary bias: remove the record with the latest (or earliest) time seen recently
                pick = max if rng.random() < 0.7 else min
                k = pick(recent, key=lambda c: c["x"])
            o = {"op": "remove_edge", "k": k}
        elif r < 0.50:
            o = {"op": "remove_node", "n": rng.choice(u), "keep": kind != "dir" and rng.random() < 0.5}
        elif r < 0.56:
            o = {"op": "add_node", "n": rng.choice(u)}
            o.update(mdarg())
        elif r < 0.62:
            o = {"op": "set_weight", "k": key(), "w": (0 if weighted and rng.random() < 0.15 else (w() or 1))}
        elif r < 0.68:
            m = rng.randint(1, 3)
            its = []
            for _ in range(m):
                it = {"k": key(), "w": 0, "bad": ""}
                it.update(mdarg())
                its.append(it)
            if rng.random() < 0.3:
                # the same entry twice in ONE batch, followed by at least one more entry (another time / layer when there is one)
                its.insert(rng.randint(1, len(its)), dict(its[0], k=dict(its[0]["k"])))
                last = {"k": key(), "w": 0, "bad": ""}
                if kind in ("temp", "mux"):
                    others = [x for x in xs if x != its[0]["k"]["x"]]
                    if others:
                        last["k"] = dict(last["k"], x=rng.choice(others))
                last.update(mdarg())
                its.append(last)
            if weighted and rng.random() < 0.6:
                for it in its:
                    it["w"] = rng.randint(1, 3)
                    if rng.random() < 0.1:
                        it.update({"w": 0, "zero": True})
            if rng.random() < 0.5:
                for it in its:
                    it.update({"hasmd": False, "md": {}})
            o = {"op": "add_edges", "items": its}
        elif r < 0.72:
            o = {"op": "remove_edges", "ks": [key() for _ in range(rng.randint(1, 2))]}
        elif r < 0.76:
            o = {"op": "remove_nodes", "ns": rng.sample(u, rng.randint(1, 2)), "keep": kind != "dir" and rng.random() < 0.5}
        elif r < 0.79:
            its = [dict({"n": x}, **mdarg()) for x in rng.sample(u, rng.randint(1, 2))]
            o = {"op": "add_nodes", "items": its}
        elif r < 0.83:
            o = {"op": "set_attr_node", "n": rng.choice(u), "f": rng.choice(["a", "b"]), "v": rng.choice(["0", "1", "2", "None"])}
        elif r < 0.87:
            o = {"op": "set_attr_edge", "k": key(), "f": rng.choice(["a", "b"]), "v": rng.choice(["0", "1", "2", "None"])}
        elif r < 0.89:
            o = {"op": "del_attr_node", "n": rng.choice(u), "f": rng.choice(["a", "b"])}
        elif r < 0.91:
            o = {"op": "del_attr_edge", "k": key(), "f": rng.choice(["a", "b"])}
        elif r < 0.93:
            o = {"op": "set_node_md", "n": rng.choice(u), "md": _md(rng, 0.2)}
        elif r < 0.95:
            o = {"op": "set_edge_md", "k": key(), "md": _md(rng, 0.2)}
        elif r < 0.96:
            o = {"op": "set_h_md", "md": _md(rng, 0.2, hyper=True)}
        elif r < 0.975 and kind != "mux":
            k = key()
            o = {"op": "set_inc_md", "k": k, "n": rng.choice(k["s"] + k["t"]), "md": _md(rng, 0.1)}
        elif r < 0.985:
            # "weighted" is also a key the class itself keeps in the hypergraph-level metadata
            o = {"op": "set_attr_h", "f": rng.choice(["a", "b", "weighted"]), "v": rng.choice(["0", "1"])}
        else:
            o = {"op": "clear"}
        ops.append(o)
    return ops


# ---------------------------------------------------------------------------
# behaviours -> real executions -> traces
class Replayer:
    """executes spec-level calls on real objects and logs one event per call

    plan: extra pure / derived events interleaved after a call with the given probability, e.g.
          {"derive": ("sub", 0.5), "saveload": 0.3, "hash": 1.0, "filter": 0.1}
    """

    def __init__(self, kind, weighted, n, family="ident", seed=0, full=True, cc=False,
                 copies=False, queries=True, plan=None, exhaustive_derive=True, query_prob=0.8, late=False):
        self.kind, self.weighted, self.n = kind, weighted, n
        self.rng = random.Random(seed)
        self.b = Binding(kind, LABEL_FAMILIES[family](n), self.rng)
        self.family = family
        self.universe = list(range(1, n + 1))
        self.full, self.cc, self.copies, self.queries = full, cc, copies, queries
        self.plan = plan or {}
        self.exhaustive_derive = exhaustive_derive
        # the query block is skipped after some calls: a query can repair (or fill) a cache, and a fault
        # that needs two mutations without a query in between would otherwise never show
        self.query_prob = query_prob
        # "late" traces: no query and no pure/derived call until the last call of the history, then everything
        # (a cache that a query would refresh stays stale through several mutations)
        self.late = late
        self._final = False
        self.objs = {}
        self.events = []
        self.skipped = 0
        self.scratch = tlc.WORK

    def _snap(self):
        return [[i, self.b.state(o)] for i, o in sorted(self.objs.items())]

    def _log(self, oid, op, ok, queries=None, more=None):
        ev = {"obj": oid, "op": op, "ok": ok, "st": self._snap()}
        if more:
            ev.update(more)
        want = self.queries if queries is None else queries
        if self.late and not self._final:
            want = False
        if self.query_prob < 0.5:
            # sparse traces: a query after every third call only, so that exactly two mutations lie between
            # two observations (remove + add, add + remove ...)
            self._tick = getattr(self, "_tick", 0) + 1
            roll = (self._tick % 3 == 0)
        else:
            roll = self.rng.random() < self.query_prob
        if want and (self._final or op["op"] in ("new", "copy") or roll):
            ev["q"] = self.b.queries(self.objs[oid], self.universe, full=self.full, cc=self.cc)
        if "q" not in ev and op["op"] in ("copy", "set_inc_md"):
            imd = self.b.incidence_md(self.objs[oid])       # a copy must carry the incidence metadata too
            if imd is not None:
                ev["q"] = {"imd": imd}
        self.events.append(ev)
        return ev

    def new(self, oid=0):
        self.objs[oid] = self.b.new(self.weighted)
        self._log(oid, {"op": "new", "weighted": self.weighted}, True)

    def copy(self, src, dst):
        with quiet():
            self.objs[dst] = self.objs[src].copy()
        self._log(dst, {"op": "copy", "from": src}, True)

    def call(self, oid, op):
        obj = self.objs[oid]
        if not self.b.supported(op, obj) or self.b.corner(op, obj):
            self.skipped += 1
            return None
        ok = self.b.apply(obj, op)
        return self._log(oid, op, ok)

    def extras(self, oid):
        from . import derive as D
        os.makedirs(self.scratch, exist_ok=True)
        rng = self.rng
        p = self.plan
        if self.late:
            if not self._final:
                return
            p = {k: ((v[0], 1.0) if isinstance(v, tuple) else 1.0) for k, v in p.items() if k != "filter"}
        elif self.query_prob < 0.5:
            # "sparse" traces: pure / derived calls are as rare as the queries
            p = {k: ((v[0], v[1] * 0.3) if isinstance(v, tuple) else (v if k == "filter" else v * 0.3)) for k, v in p.items()}
        if "filter" in p and rng.random() < p["filter"]:
            # decorate some nodes / hyperedges first (ordinary logged calls), so that criteria split the items
            # instead of hitting all or none of them
            if rng.random() < 0.7:
                st = self.b.state(self.objs[oid])
                for _ in range(rng.randint(2, 6)):
                    f, v = rng.choice(["a", "b"]), rng.choice(["0", "1"])
                    if st["nodes"] and rng.random() < 0.6:
                        n = rng.choice(st["nodes"])
                        if n != -1:
                            self.call(oid, {"op": "set_attr_node", "n": n, "f": f, "v": v})
                    elif st["edges"]:
                        k = rng.choice(st["edges"])["k"]
                        if -1 not in k["s"]:
                            self.call(oid, {"op": "set_attr_edge", "k": k, "f": f, "v": v})
            ev = D.filter_call(self, oid)
            if ev is not None:
                self._log(oid, ev["op"], ev["ok"])
        if "derive" in p and rng.random() < p["derive"][1]:
            ev = D.derive_event(self, oid, p["derive"][0])
            self._log(oid, ev["op"], True, queries=False, more={"d": ev["d"]})
        if "saveload" in p and rng.random() < p["saveload"]:
            ev = D.saveload_event(self, oid, binary=rng.random() < 0.5)
            more = {"loaded": ev["loaded"]} if "loaded" in ev else None
            self._log(oid, ev["op"], ev["ok"], queries=False, more=more)
            # sometimes the history continues on the LOADED object (second-generation round trips)
            if ev.get("_obj") is not None and rng.random() < 0.35:
                self.objs[oid] = ev["_obj"]
                self._log(oid, {"op": "adopt"}, True, queries=False)
                # second generation: change one weight (or re-insert a hyperedge) on the loaded object and
                # round-trip again at once
                st = self.b.state(self.objs[oid])
                if st["edges"] and -1 not in st["edges"][0]["k"]["s"]:
                    k = rng.choice(st["edges"])["k"]
                    op2 = ({"op": "set_weight", "k": k, "w": rng.randint(2, 5)} if st["wtd"] else
                           {"op": "add_edge", "k": k, "w": 0, "hasmd": True, "md": {"b": "1"}, "bad": ""})
                    if self.call(oid, op2) is not None:
                        ev2 = D.saveload_event(self, oid, binary=False)
                        more2 = {"loaded": ev2["loaded"]} if "loaded" in ev2 else None
                        self._log(oid, ev2["op"], ev2["ok"], queries=False, more=more2)
        if "hash" in p and rng.random() < p["hash"]:
            ev = D.hash_event(self, oid)
            # digests are only comparable under one label map: tag them with the family
            more = {"digest": self.family + ":" + ev["digest"], "lab": self.family} if "digest" in ev else None
            if more and "digest_reordered" in ev:
                more["digest_reordered"] = self.family + ":" + ev["digest_reordered"]
            if more and "digest_rebuilt" in ev:
                more["digest_rebuilt"] = self.family + ":" + ev["digest_rebuilt"]
            if more and "digest_close" in ev:
                more["digest_close"] = ev["digest_close"]
            self._log(oid, ev["op"], ev["ok"], queries=False, more=more)

    def run_twins(self, ops):
        """the same calls on a weighted (object 0) and an unweighted (object 1) twin, with a digest after
        every call: contents that differ in weightedness only must hash differently (C07)"""
        for oid, w in ((0, True), (1, False)):
            self.objs[oid] = self.b.new(w)
            self._log(oid, {"op": "new", "weighted": w}, True, queries=False)
        for op in ops:
            for oid in (0, 1):
                import copy as _c
                if self.call(oid, _c.deepcopy(op)) is not None:
                    self.extras(oid)
        return self.events

    def run(self, ops):
        from .binding import UNSUPPORTED
        self.new(0)
        self.extras(0)
        can_copy = self.copies and "copy" not in UNSUPPORTED[self.kind]
        copy_at = self.rng.randrange(1, max(2, len(ops))) if can_copy else None
        # a second copy of the SAME source later on (a copy must reflect the source as it is then)
        copy2_at = (self.rng.randrange(copy_at + 1, len(ops) + 1) if can_copy and copy_at is not None
                    and copy_at + 1 <= len(ops) and self.rng.random() < 0.5 else None)
        for i, op in enumerate(ops):
            if copy_at is not None and i == copy_at:
                self.copy(0, 1)
            if copy2_at is not None and i == copy2_at:
                self.copy(0, 2)
            oid = 0
            if 1 in self.objs and self.rng.random() < 0.5:
                oid = self.rng.choice([k for k in self.objs if k != 0])
            self._final = (i == len(ops) - 1)
            if self.call(oid, op) is not None:
                self.extras(oid)
        if self.late and not self._final and self.events:
            # the last call was skipped (unsupported / corner): observe now
            self._final = True
            oid = self.events[-1]["obj"]
            self._log(oid, {"op": "observe"}, True)
            self.extras(oid)
        return self.events


def _replay_chunk(args):
    (kind, weighted, n, items, full, cc, copies, queries, plan, exhaustive_derive) = args
    out = []
    for (ops, fam, sd) in items:
        r = Replayer(kind, weighted, n, fam, seed=sd, full=full, cc=cc, copies=copies,
                     queries=queries, plan=plan, exhaustive_derive=exhaustive_derive, late=(sd % 4 == 3),
                     query_prob=(0.25 if sd % 4 == 2 else 0.8))
        tr = r.run(ops)
        out.append((tr, {"family": fam, "seed": sd, "labels": r.b.labels, "skipped": r.skipped, "ops": ops,
                         "late": r.late}))
    return out


def replay_many(kind, weighted, behaviours, n, families=("ident",), seed=0, full=True, cc=False,
                copies=False, queries=True, plan=None, exhaustive_derive=True, procs=None):
    """replays are independent and deterministic given their seed: large sets are spread over processes"""
    items = [(ops, families[i % len(families)], seed * 100003 + i) for i, ops in enumerate(behaviours)]
    common = (full, cc, copies, queries, plan, exhaustive_derive)
    if procs is None:
        procs = 1 if len(items) < 400 else 12
    if procs <= 1:
        res = _replay_chunk((kind, weighted, n, items) + common)
    else:
        import multiprocessing as mp
        size = max(20, len(items) // (procs * 4) + 1)
        chunks = [(kind, weighted, n, items[i:i + size]) + common for i in range(0, len(items), size)]
        with mp.get_context("fork").Pool(procs) as pool:
            res = [x for part in pool.map(_replay_chunk, chunks) for x in part]
    return [t for t, _ in res], [m for _, m in res]


# ---------------------------------------------------------------------------
# traces -> verdicts (TLC evaluates the specification along every trace)
def _validate_batch(args):
    kind, traces, idx, timeout = args
    wd = tlc.workdir("val")
    try:
        path = os.path.join(wd, "batch.json")
        with open(path, "w") as f:
            json.dump({"traces": traces}, f)
        cfg = tlc.cfg_text({"Kind": kind}, init="TInit", next_="TNext")
        res = tlc.run("Trace_HGX", cfg, wd=wd, workers=1, env={"TRACE_FILE": path}, timeout=timeout)
        rj, done = [], None
        for s in tlc.printed_strings(res["out"]):
            if s.startswith("RJ "):
                t, l, failed = tlc.parse_value(s[3:])
                rj.append((idx[t - 1], l - 1, sorted(failed)))
            elif s.startswith("DONE "):
                done = [int(x) for x in s.split()[1:]]
        nev = sum(len(t) for t in traces)
        if done is None or done[0] != nev:
            raise tlc.TLCError("validator did not consume all %d events (DONE=%s)\n%s"
                               % (nev, done, tlc.error_excerpt(res["out"])))
        st = tlc.stats(res["out"]) or {"generated": 0, "distinct": 0}
        return {"rejects": rj, "events": nev, "states": st["distinct"], "wall": res["wall"]}
    finally:
        shutil.rmtree(wd, ignore_errors=True)


def validate(kind, traces, procs=8, per_batch=40, timeout=900):
    """returns dict(rejects=[(trace index, event index, [clauses])], events, states)"""
    batches = []
    for i in range(0, len(traces), per_batch):
        batches.append((kind, traces[i:i + per_batch], list(range(i, min(len(traces), i + per_batch))), timeout))
    out = {"rejects": [], "events": 0, "states": 0, "wall": 0.0}
    if not batches:
        return out
    with cf.ThreadPoolExecutor(max_workers=procs) as ex:
        for r in ex.map(_validate_batch, batches):
            out["rejects"] += r["rejects"]
            out["events"] += r["events"]
            out["states"] += r["states"]
            out["wall"] += r["wall"]
    out["rejects"].sort()
    return out
