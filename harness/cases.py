"""Validation of one-call cases (pure functions) by TLC: spec/trace/CaseRunner.tla."""
import concurrent.futures as cf
import json
import os
import shutil

from . import tlc


def _batch(args):
    module, consts, cases, idx, timeout = args
    wd = tlc.workdir("case")
    try:
        path = os.path.join(wd, "cases.json")
        with open(path, "w") as f:
            json.dump({"cases": cases}, f)
        cfg = tlc.cfg_text(consts, init="TInit", next_="TNext")
        res = tlc.run(module, cfg, wd=wd, workers=1, env={"TRACE_FILE": path}, timeout=timeout)
        rj, done = [], None
        for s in tlc.printed_strings(res["out"]):
            if s.startswith("RJ "):
                c, _, failed = tlc.parse_value(s[3:])
                rj.append((idx[c - 1], sorted(failed)))
            elif s.startswith("DONE "):
                done = [int(x) for x in s.split()[1:]]
        if done is None or done[0] != len(cases):
            raise tlc.TLCError("%s did not consume all %d cases (DONE=%s)\n%s"
                               % (module, len(cases), done, tlc.error_excerpt(res["out"])))
        st = tlc.stats(res["out"]) or {"generated": 0, "distinct": 0}
        return {"rejects": rj, "states": st["distinct"], "wall": res["wall"]}
    finally:
        shutil.rmtree(wd, ignore_errors=True)


def run_cases(module, cases, consts=None, procs=8, per_batch=None, timeout=1200):
    """TLC evaluates Clauses(case) for every case; returns dict(rejects=[(case index, [clauses])], states)"""
    out = {"rejects": [], "states": 0, "cases": len(cases), "wall": 0.0}
    if not cases:
        return out
    per_batch = per_batch or max(10, len(cases) // procs + 1)
    jobs = [(module, consts or {}, cases[i:i + per_batch], list(range(i, min(len(cases), i + per_batch))), timeout)
            for i in range(0, len(cases), per_batch)]
    with cf.ThreadPoolExecutor(max_workers=procs) as ex:
        for r in ex.map(_batch, jobs):
            out["rejects"] += r["rejects"]
            out["states"] += r["states"]
            out["wall"] += r["wall"]
    out["rejects"].sort()
    return out
