"""EM runs (C15, C17): objective codes for TLC and batch validation against spec/trace/Trace_EM.tla.

TLC has no reals.  A sequence of logged objective values (floats) is turned into two
integer codes per value:
  objx  exact dense rank (equal floats <=> equal codes; order preserved): bookkeeping of maxima
  obj   tolerance rank: the distinct values are sorted and neighbours closer than
        tol(v) = rel * max(1, |v|) (+ an optional per-value rounding bound) are merged (single linkage).  Two values with different
        codes therefore differ by MORE than the tolerance, so a decrease of the code is a
        decrease beyond rounding; chains of sub-tolerance moves are (deliberately) not flagged.
"""
import concurrent.futures as cf
import json
import math
import os
import shutil

from . import tlc

REL_TOL = 1e-9


def ranks(values, rel=REL_TOL, extra=None):
    """values: list of floats (no NaN) -> (tolerance ranks, exact ranks).
    extra: optional absolute tolerance per value (a forward rounding bound of the computation that produced it),
    added to rel * max(1, |v|); two neighbours are merged when their gap is within the larger of their tolerances"""
    tol = {}
    for i, v in enumerate(values):
        t = rel * max(1.0, abs(v)) if math.isfinite(v) else 0.0
        if extra is not None:
            t += extra[i]
        tol[v] = max(tol.get(v, 0.0), t)
    distinct = sorted(set(values))
    exact = {v: i for i, v in enumerate(distinct)}
    tolr, k = {}, 0
    for i, v in enumerate(distinct):
        if i > 0:
            p = distinct[i - 1]
            if math.isinf(v) or math.isinf(p):
                gap = v != p
            else:
                gap = (v - p) > max(tol[v], tol[p])
            if gap:
                k += 1
        tolr[v] = k
    return [tolr[v] for v in values], [exact[v] for v in values]


def _batch(args):
    traces, idx, timeout = args
    wd = tlc.workdir("em")
    try:
        path = os.path.join(wd, "traces.json")
        with open(path, "w") as f:
            json.dump({"traces": traces}, f)
        cfg = tlc.cfg_text({}, init="TInit", next_="TNext")
        res = tlc.run("Trace_EM", cfg, wd=wd, workers=1, env={"TRACE_FILE": path}, timeout=timeout)
        rj, done = [], None
        for s in tlc.printed_strings(res["out"]):
            if s.startswith("RJ "):
                t, l, failed = tlc.parse_value(s[3:])
                rj.append((idx[t - 1], l - 1, sorted(failed)))
            elif s.startswith("DONE "):
                done = [int(x) for x in s.split()[1:]]
        nev = sum(len(t["ev"]) for t in traces)
        if done is None or done[0] != len(traces) or done[1] != nev:
            raise tlc.TLCError("Trace_EM did not consume all %d traces / %d events (DONE=%s)\n%s"
                               % (len(traces), nev, done, tlc.error_excerpt(res["out"])))
        st = tlc.stats(res["out"]) or {"generated": 0, "distinct": 0}
        return {"rejects": rj, "states": st["distinct"], "events": nev, "wall": res["wall"]}
    finally:
        shutil.rmtree(wd, ignore_errors=True)


def run_traces(traces, procs=8, timeout=1200):
    """TLC re-executes EMDriver along every trace; returns dict(rejects=[(trace, event, [clauses])], ...)"""
    out = {"rejects": [], "states": 0, "events": 0, "traces": len(traces), "wall": 0.0}
    if not traces:
        return out
    per = max(5, len(traces) // procs + 1)
    jobs = [(traces[i:i + per], list(range(i, min(len(traces), i + per))), timeout) for i in range(0, len(traces), per)]
    with cf.ThreadPoolExecutor(max_workers=procs) as ex:
        for r in ex.map(_batch, jobs):
            out["rejects"] += r["rejects"]
            out["states"] += r["states"]
            out["events"] += r["events"]
            out["wall"] += r["wall"]
    out["rejects"].sort()
    return out


def oracle(module, cases, timeout=600):
    """oracle mode: TLC evaluates `module` on the cases and writes exact values with JsonSerialize"""
    wd = tlc.workdir("orc")
    try:
        pin, pout = os.path.join(wd, "in.json"), os.path.join(wd, "out.json")
        with open(pin, "w") as f:
            json.dump({"cases": cases}, f)
        res = tlc.run(module, tlc.cfg_text({}), wd=wd, workers=1, env={"IN_FILE": pin, "OUT_FILE": pout}, timeout=timeout)
        if not os.path.exists(pout):
            raise tlc.TLCError("%s wrote no output\n%s" % (module, tlc.error_excerpt(res["out"])))
        with open(pout) as f:
            out = json.load(f)
        if len(out) != len(cases):
            raise tlc.TLCError("%s evaluated %d of %d cases" % (module, len(out), len(cases)))
        return out
    finally:
        shutil.rmtree(wd, ignore_errors=True)
