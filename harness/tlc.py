"""Running TLC (explore / simulate / validate / oracle) and parsing what it prints.

Everything TLC needs is copied into a private scratch directory under /verif/.work
(created on demand, removed by the caller), so that parallel TLC processes never
share a metadir and nothing outside /verif is needed by a registered command.
"""
import json
import os
import re
import shutil
import subprocess
import tempfile
import time

ROOT = os.path.dirname(os.path.dirname(os.path.abspath(__file__)))
SPEC = os.path.join(ROOT, "spec")
WORK = os.path.join(ROOT, ".work")
CP = "/opt/veriftools/tla/tla2tools.jar:/opt/veriftools/tla/CommunityModules-deps.jar"


class TLCError(Exception):
    """machinery failure (exit 2), never a verdict"""


def workdir(prefix="w"):
    os.makedirs(WORK, exist_ok=True)
    return tempfile.mkdtemp(prefix=prefix + "-", dir=WORK)


def stage_specs(wd):
    """flat copy of every .tla under spec/ (module names are unique)"""
    for d, _, fs in os.walk(SPEC):
        for f in fs:
            if f.endswith(".tla"):
                shutil.copy(os.path.join(d, f), os.path.join(wd, f))


def cfg_text(constants=None, init="Init", next_="Next", invariants=(), properties=(),
             constraints=(), deadlock=False, postcondition=None, extra=""):
    out = []
    if constants:
        out.append("CONSTANTS")
        for k, v in constants.items():
            out.append(" %s = %s" % (k, tla_lit(v)))
    out.append("INIT %s" % init)
    out.append("NEXT %s" % next_)
    for c in constraints:
        out.append("CONSTRAINT %s" % c)
    for i in invariants:
        out.append("INVARIANT %s" % i)
    for p in properties:
        out.append("PROPERTY %s" % p)
    if postcondition:
        out.append("POSTCONDITION %s" % postcondition)
    out.append("CHECK_DEADLOCK %s" % ("TRUE" if deadlock else "FALSE"))
    if extra:
        out.append(extra)
    return "\n".join(out) + "\n"


def tla_lit(v):
    """python value -> TLA+ literal usable in a cfg file"""
    if isinstance(v, bool):
        return "TRUE" if v else "FALSE"
    if isinstance(v, int):
        return str(v)
    if isinstance(v, str):
        return '"%s"' % v
    if isinstance(v, (set, frozenset)):
        return "{" + ",".join(tla_lit(x) for x in sorted(v, key=lambda z: (str(type(z)), z))) + "}"
    if isinstance(v, (list, tuple)):
        return "<<" + ",".join(tla_lit(x) for x in v) + ">>"
    raise TypeError(v)


def run(module, cfg, wd=None, workers=1, simulate=None, depth=None, seed=None, env=None,
        timeout=900, heap="3g", coverage=False, keep=False, dfid=None):
    """Run TLC on `module` with the cfg text `cfg`. Returns dict(out, rc, wall, wd)."""
    own = wd is None
    if own:
        wd = workdir(module)
    stage_specs(wd)
    with open(os.path.join(wd, module + ".cfg"), "w") as f:
        f.write(cfg)
    cmd = ["java", "-XX:+UseParallelGC", "-Xmx" + heap, "-cp", CP, "tlc2.TLC",
           "-workers", str(workers), "-metadir", os.path.join(wd, "states"), "-noGenerateSpecTE"]
    if simulate is not None:
        cmd += ["-simulate", "num=%d" % simulate]
        if depth:
            cmd += ["-depth", str(depth)]
    if seed is not None:
        cmd += ["-seed", str(seed)]
    if coverage:
        cmd += ["-coverage", "1"]
    cmd.append(module + ".tla")
    e = dict(os.environ)
    e.pop("JAVA_TOOL_OPTIONS", None)
    if env:
        e.update({k: str(v) for k, v in env.items()})
    t0 = time.time()
    for attempt in (1, 2, 3):
        try:
            p = subprocess.run(cmd, cwd=wd, env=e, stdout=subprocess.PIPE, stderr=subprocess.STDOUT,
                               timeout=timeout, text=True)
            out, rc = p.stdout, p.returncode
        except subprocess.TimeoutExpired as ex:
            out = (ex.stdout or "")
            if isinstance(out, bytes):
                out = out.decode("utf8", "replace")
            rc = 124
        # a JVM killed from outside (signal) says nothing about the specification: run it again
        if rc < 0 or rc in (129, 130, 137, 143):
            shutil.rmtree(os.path.join(wd, "states"), ignore_errors=True)
            continue
        break
    wall = time.time() - t0
    res = {"out": out, "rc": rc, "wall": wall, "wd": wd}
    if own and not keep:
        shutil.rmtree(wd, ignore_errors=True)
    return res


_STATS = re.compile(r"(\d+) states generated, (\d+) distinct states found")


def stats(out):
    m = None
    for m in _STATS.finditer(out):
        pass
    if not m:
        return None
    return {"generated": int(m.group(1)), "distinct": int(m.group(2))}


def ok_exploration(res):
    """TLC finished an exhaustive run without error"""
    return res["rc"] == 0 and "Model checking completed. No error has been found." in res["out"]


def error_excerpt(out, n=40):
    lines = [l for l in out.splitlines() if not re.match(r"^(Parsing|Semantic|Linting) ", l) and l.strip()]
    for i, l in enumerate(lines):
        if l.startswith("Error:") or "is violated" in l or "Assert" in l:
            return "\n".join(lines[i:i + n])
    return "\n".join(lines[-n:])


def printed_strings(out, prefix=None):
    """values printed by PrintT("...") : one TLA+ string literal per line"""
    res = []
    for l in out.splitlines():
        if len(l) >= 2 and l[0] == '"' and l[-1] == '"':
            try:
                s = json.loads(l)
            except Exception:
                continue
            if prefix is None or s.startswith(prefix):
                res.append(s)
    return res


# ---------------------------------------------------------------------------
# a small parser for TLC-printed values: <<..>>, {..}, [a |-> ..], "..", ints, TRUE/FALSE
def parse_value(s):
    v, i = _pv(s, 0)
    return v


def _ws(s, i):
    while i < len(s) and s[i] in " \n\t\r":
        i += 1
    return i


def _pv(s, i):
    i = _ws(s, i)
    if s.startswith("<<", i):
        i += 2
        items = []
        i = _ws(s, i)
        if s.startswith(">>", i):
            return tuple(items), i + 2
        while True:
            v, i = _pv(s, i)
            items.append(v)
            i = _ws(s, i)
            if s.startswith(">>", i):
                return tuple(items), i + 2
            assert s[i] == ",", s[i:i + 20]
            i += 1
    if s[i] == "{":
        i += 1
        items = []
        i = _ws(s, i)
        if s[i] == "}":
            return frozenset(), i + 1
        while True:
            v, i = _pv(s, i)
            items.append(v)
            i = _ws(s, i)
            if s[i] == "}":
                return frozenset(items), i + 1
            assert s[i] == ",", s[i:i + 20]
            i += 1
    if s[i] == "[":
        i += 1
        rec = {}
        while True:
            i = _ws(s, i)
            m = re.match(r"(\w+)\s*\|->", s[i:])
            assert m, s[i:i + 30]
            i += m.end()
            v, i = _pv(s, i)
            rec[m.group(1)] = v
            i = _ws(s, i)
            if s[i] == "]":
                return rec, i + 1
            assert s[i] == ",", s[i:i + 20]
            i += 1
    if s[i] == '"':
        j = i + 1
        buf = []
        while s[j] != '"':
            if s[j] == "\\":
                j += 1
            buf.append(s[j])
            j += 1
        return "".join(buf), j + 1
    m = re.match(r"-?\d+", s[i:])
    if m:
        return int(m.group(0)), i + m.end()
    if s.startswith("TRUE", i):
        return True, i + 4
    if s.startswith("FALSE", i):
        return False, i + 5
    raise ValueError("cannot parse TLC value at: " + s[i:i + 40])
