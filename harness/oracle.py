"""Oracle mode and stateful trace validation for the measure / dynamics properties (C18, C20).

run_oracle:  spec/trace/OracleRunner.tla - TLC decides the named discrete clauses of every case
             (RJ lines) and writes the exact values of the specification's operators (integers,
             <<num, den>> rationals, sets) as JSON; the harness compares implementation floats
             with them.
run_traces:  a never-disabled trace validator with variables (ti, li, ...) in the shape of
             Trace_HGX.tla: one RJ line per rejected event, DONE <events> <rejected> at the end.
"""
import concurrent.futures as cf
import json
import os
import shutil

from . import tlc


def _run_tlc(module, cfg, wd, env, timeout):
    """one TLC process; a process that vanished without reporting anything (killed from outside, e.g. by
    the OOM killer on a crowded machine) is started once more - a reported error never is"""
    for attempt in (1, 2):
        res = tlc.run(module, cfg, wd=wd, workers=1, env=env, timeout=timeout)
        out = res["out"]
        if "DONE " in out or "Error:" in out or "error" in out.lower() or res["rc"] == 124 or attempt == 2:
            return res
        shutil.rmtree(os.path.join(wd, "states"), ignore_errors=True)
    return res


def _oracle_batch(args):
    module, consts, cases, idx, timeout = args
    wd = tlc.workdir("orc")
    try:
        path = os.path.join(wd, "cases.json")
        outp = os.path.join(wd, "values.json")
        with open(path, "w") as f:
            json.dump({"cases": cases}, f)
        cfg = tlc.cfg_text(consts, init="TInit", next_="TNext")
        res = _run_tlc(module, cfg, wd, {"TRACE_FILE": path, "OUT_FILE": outp}, timeout)
        rj, done = [], None
        for s in tlc.printed_strings(res["out"]):
            if s.startswith("RJ "):
                c, _, failed = tlc.parse_value(s[3:])
                rj.append((idx[c - 1], sorted(failed)))
            elif s.startswith("DONE "):
                done = [int(x) for x in s.split()[1:]]
        if done is None or done[0] != len(cases) or not os.path.exists(outp):
            raise tlc.TLCError("%s did not consume all %d cases (DONE=%s)\n%s"
                               % (module, len(cases), done, tlc.error_excerpt(res["out"])))
        with open(outp) as f:
            values = json.load(f)
        if len(values) != len(cases):
            raise tlc.TLCError("%s wrote %d values for %d cases" % (module, len(values), len(cases)))
        st = tlc.stats(res["out"]) or {"generated": 0, "distinct": 0}
        return {"rejects": rj, "values": values, "states": st["distinct"], "wall": res["wall"]}
    finally:
        shutil.rmtree(wd, ignore_errors=True)


def run_oracle(module, cases, consts=None, procs=8, per_batch=None, timeout=1500):
    """returns dict(rejects=[(case index, [clauses])], values=[one JSON value per case], states)"""
    out = {"rejects": [], "values": [], "states": 0, "cases": len(cases), "wall": 0.0}
    if not cases:
        return out
    # short TLC runs: bounded batches queue through the pool of `procs` processes
    per_batch = per_batch or min(250, max(5, len(cases) // procs + 1))
    jobs = [(module, consts or {}, cases[i:i + per_batch], list(range(i, min(len(cases), i + per_batch))), timeout)
            for i in range(0, len(cases), per_batch)]
    with cf.ThreadPoolExecutor(max_workers=procs) as ex:
        for r in ex.map(_oracle_batch, jobs):
            out["rejects"] += r["rejects"]
            out["values"] += r["values"]
            out["states"] += r["states"]
            out["wall"] += r["wall"]
    out["rejects"].sort()
    return out


def _trace_batch(args):
    module, consts, traces, idx, timeout = args
    wd = tlc.workdir("trv")
    try:
        path = os.path.join(wd, "batch.json")
        with open(path, "w") as f:
            json.dump({"traces": traces}, f)
        cfg = tlc.cfg_text(consts, init="TInit", next_="TNext")
        res = _run_tlc(module, cfg, wd, {"TRACE_FILE": path}, timeout)
        rj, done = [], None
        for s in tlc.printed_strings(res["out"]):
            if s.startswith("RJ "):
                t, l, failed = tlc.parse_value(s[3:])
                rj.append((idx[t - 1], l - 1, sorted(failed)))
            elif s.startswith("DONE "):
                done = [int(x) for x in s.split()[1:]]
        nev = sum(len(t) for t in traces)
        if done is None or done[0] != nev:
            raise tlc.TLCError("%s did not consume all %d events (DONE=%s)\n%s"
                               % (module, nev, done, tlc.error_excerpt(res["out"])))
        st = tlc.stats(res["out"]) or {"generated": 0, "distinct": 0}
        return {"rejects": rj, "events": nev, "states": st["distinct"], "wall": res["wall"]}
    finally:
        shutil.rmtree(wd, ignore_errors=True)


def run_traces(module, traces, consts=None, procs=8, per_batch=None, timeout=1500):
    """returns dict(rejects=[(trace index, event index, [clauses])], events, states)"""
    out = {"rejects": [], "events": 0, "states": 0, "wall": 0.0}
    if not traces:
        return out
    per_batch = per_batch or min(400, max(5, len(traces) // procs + 1))
    jobs = [(module, consts or {}, traces[i:i + per_batch], list(range(i, min(len(traces), i + per_batch))), timeout)
            for i in range(0, len(traces), per_batch)]
    with cf.ThreadPoolExecutor(max_workers=procs) as ex:
        for r in ex.map(_trace_batch, jobs):
            out["rejects"] += r["rejects"]
            out["events"] += r["events"]
            out["states"] += r["states"]
            out["wall"] += r["wall"]
    out["rejects"].sort()
    return out
